// Package roaring is the w64 MODEL of github.com/RoaringBitmap/roaring v1.9.4 used by the
// symbolic engine: a bitmap is one 64-bit word, the row universe is 0..63. It is loaded in
// place of the real package through a go/packages overlay and executed by the same
// interpreter as the code under analysis. Contract: see DESIGN.md §2.2.
package roaring

import "errors"

// Intrinsics of the engine (no bodies: never compiled natively).
func symCard(bits uint64) uint64
func symSize(bits uint64) uint64
func symOutOfBound(msg string)

type Bitmap struct {
	bits uint64
}

const blobTag = 0xB1

func New() *Bitmap       { return &Bitmap{} }
func NewBitmap() *Bitmap { return &Bitmap{} }

func BitmapOf(dat ...uint32) *Bitmap {
	b := New()
	for _, x := range dat {
		b.Add(x)
	}
	return b
}

func (rb *Bitmap) Add(x uint32) {
	if x >= 64 {
		symOutOfBound("roaring model: row id >= 64")
	}
	rb.bits |= uint64(1) << x
}

func (rb *Bitmap) AddInt(x int) { rb.Add(uint32(x)) }

func (rb *Bitmap) CheckedAdd(x uint32) bool {
	had := rb.Contains(x)
	rb.Add(x)
	return !had
}

func (rb *Bitmap) Remove(x uint32) {
	if x >= 64 {
		return
	}
	rb.bits &^= uint64(1) << x
}

func (rb *Bitmap) Contains(x uint32) bool {
	if x >= 64 {
		return false
	}
	return rb.bits&(uint64(1)<<x) != 0
}

func (rb *Bitmap) Clone() *Bitmap { return &Bitmap{bits: rb.bits} }
func (rb *Bitmap) Clear()         { rb.bits = 0 }
func (rb *Bitmap) IsEmpty() bool  { return rb.bits == 0 }
func (rb *Bitmap) RunOptimize()   {}

func (rb *Bitmap) GetCardinality() uint64 { return symCard(rb.bits) }
func (rb *Bitmap) GetSizeInBytes() uint64 { return symSize(rb.bits) }

func (rb *Bitmap) Equals(o interface{}) bool {
	ob, ok := o.(*Bitmap)
	if !ok {
		return false
	}
	return ob.bits == rb.bits
}

func rangeMask(rangeStart, rangeEnd uint64) uint64 {
	if rangeStart >= rangeEnd {
		return 0
	}
	if rangeEnd > 64 {
		symOutOfBound("roaring model: range end > 64")
	}
	hi := uint64(1)<<rangeEnd - 1 // rangeEnd == 64 gives all ones (Go shift semantics)
	lo := uint64(1)<<rangeStart - 1
	return hi &^ lo
}

// functional operations return fresh bitmaps

func And(a, b *Bitmap) *Bitmap    { return &Bitmap{bits: a.bits & b.bits} }
func Or(a, b *Bitmap) *Bitmap     { return &Bitmap{bits: a.bits | b.bits} }
func Xor(a, b *Bitmap) *Bitmap    { return &Bitmap{bits: a.bits ^ b.bits} }
func AndNot(a, b *Bitmap) *Bitmap { return &Bitmap{bits: a.bits &^ b.bits} }

func Flip(bm *Bitmap, rangeStart, rangeEnd uint64) *Bitmap {
	return &Bitmap{bits: bm.bits ^ rangeMask(rangeStart, rangeEnd)}
}

func FlipInt(bm *Bitmap, rangeStart, rangeEnd int) *Bitmap {
	return Flip(bm, uint64(rangeStart), uint64(rangeEnd))
}

// FastAnd of no bitmaps is empty, of one bitmap a clone (as v1.9.4).
func FastAnd(bitmaps ...*Bitmap) *Bitmap {
	if len(bitmaps) == 0 {
		return New()
	}
	r := bitmaps[0].bits
	for _, b := range bitmaps[1:] {
		r &= b.bits
	}
	return &Bitmap{bits: r}
}

func FastOr(bitmaps ...*Bitmap) *Bitmap {
	var r uint64
	for _, b := range bitmaps {
		r |= b.bits
	}
	return &Bitmap{bits: r}
}

func ParAnd(parallelism int, bitmaps ...*Bitmap) *Bitmap { return FastAnd(bitmaps...) }
func ParOr(parallelism int, bitmaps ...*Bitmap) *Bitmap  { return FastOr(bitmaps...) }

// in-place operations mutate the receiver

func (rb *Bitmap) And(o *Bitmap)    { rb.bits &= o.bits }
func (rb *Bitmap) Or(o *Bitmap)     { rb.bits |= o.bits }
func (rb *Bitmap) Xor(o *Bitmap)    { rb.bits ^= o.bits }
func (rb *Bitmap) AndNot(o *Bitmap) { rb.bits &^= o.bits }
func (rb *Bitmap) Flip(rangeStart, rangeEnd uint64) {
	rb.bits ^= rangeMask(rangeStart, rangeEnd)
}
func (rb *Bitmap) FlipInt(rangeStart, rangeEnd int) { rb.Flip(uint64(rangeStart), uint64(rangeEnd)) }
func (rb *Bitmap) AddRange(rangeStart, rangeEnd uint64) {
	rb.bits |= rangeMask(rangeStart, rangeEnd)
}
func (rb *Bitmap) RemoveRange(rangeStart, rangeEnd uint64) {
	rb.bits &^= rangeMask(rangeStart, rangeEnd)
}

func (rb *Bitmap) AndCardinality(o *Bitmap) uint64 { return symCard(rb.bits & o.bits) }
func (rb *Bitmap) OrCardinality(o *Bitmap) uint64  { return symCard(rb.bits | o.bits) }
func (rb *Bitmap) Intersects(o *Bitmap) bool       { return rb.bits&o.bits != 0 }

// serialisation: an opaque tagged blob; FromBuffer(ToBytes(b)) = b.

func (rb *Bitmap) ToBytes() ([]byte, error) {
	b := make([]byte, 9)
	b[0] = blobTag
	x := rb.bits
	b[1] = byte(x >> 56)
	b[2] = byte(x >> 48)
	b[3] = byte(x >> 40)
	b[4] = byte(x >> 32)
	b[5] = byte(x >> 24)
	b[6] = byte(x >> 16)
	b[7] = byte(x >> 8)
	b[8] = byte(x)
	return b, nil
}

func (rb *Bitmap) MarshalBinary() ([]byte, error) { return rb.ToBytes() }

func (rb *Bitmap) FromBuffer(buf []byte) (int64, error) {
	if len(buf) != 9 {
		return 0, errors.New("roaring model: not a bitmap blob (length)")
	}
	if buf[0] != blobTag {
		return 0, errors.New("roaring model: not a bitmap blob (tag)")
	}
	rb.bits = uint64(buf[1])<<56 | uint64(buf[2])<<48 | uint64(buf[3])<<40 | uint64(buf[4])<<32 |
		uint64(buf[5])<<24 | uint64(buf[6])<<16 | uint64(buf[7])<<8 | uint64(buf[8])
	return 9, nil
}

func (rb *Bitmap) FromUnsafeBytes(buf []byte, cookieHeader ...byte) (int64, error) {
	return rb.FromBuffer(buf)
}

func (rb *Bitmap) UnmarshalBinary(buf []byte) error {
	_, err := rb.FromBuffer(buf)
	return err
}

func (rb *Bitmap) ToArray() []uint32 {
	var out []uint32
	for i := uint32(0); i < 64; i++ {
		if rb.bits&(uint64(1)<<i) != 0 {
			out = append(out, i)
		}
	}
	return out
}
