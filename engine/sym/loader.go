package sym

import (
	"fmt"
	"go/token"
	"go/types"
	"os"
	"os/exec"
	"path/filepath"
	"runtime/debug"
	"sort"
	"strings"
	"sync"
	"time"

	"golang.org/x/tools/go/packages"
	"golang.org/x/tools/go/ssa"
	"golang.org/x/tools/go/ssa/ssautil"
)

type intrinsicFn func(fr *frame, args []Value) Value

// Program is the loaded, SSA-built code under analysis plus the engine's tables.
type Program struct {
	prog    *ssa.Program
	pkgs    []*packages.Package
	byPath  map[string]*ssa.Package
	sizes   types.Sizes
	RepoMod string
	RepoDir string

	intrinsics      map[string]intrinsicFn
	verifIntrinsics map[string]intrinsicFn

	runtimeErrorString types.Type
	errorStringPtr     types.Type // *errors.errorString
	wrapErrorPtr       types.Type // *fmt.wrapError

	sharedGlobals  map[*ssa.Global]*Value
	initRun        map[*ssa.Package]bool
	initFailed     map[*ssa.Package]bool
	sharedMu       sync.RWMutex
	lazyMu         sync.Mutex
	initStoresOnce sync.Once
	initStores     map[*ssa.Global]bool
	perPathPkgs    []*ssa.Package

	LoadSeconds float64
	Warnings    []string
}

// LoadOptions describes what to load.
type LoadOptions struct {
	RepoDir  string
	Patterns []string
	// HarnessFiles maps a virtual path under RepoDir (e.g. "zz_verif_c07.go" or
	// "driver/zz_verif_rt.go") to the real file holding its contents.
	HarnessFiles map[string]string
	// Models maps a module path (e.g. "github.com/RoaringBitmap/roaring") to
	// {file name to replace, real file with model source}.
	Models []ModelSpec
}

type ModelSpec struct {
	Module   string // module path as in go.mod
	PkgName  string // package clause name
	FileName string // existing unconstrained file to carry the model
	Source   string // path of the model source file
}

// hasInitializer reports whether the package initialiser assigns the global.
func (p *Program) hasInitializer(g *ssa.Global) bool {
	p.initStoresOnce.Do(p.computeInitStores)
	return p.initStores[g]
}

func (p *Program) computeInitStores() {
	{
		p.initStores = map[*ssa.Global]bool{}
		for _, sp := range p.prog.AllPackages() {
			init := sp.Func("init")
			if init == nil {
				continue
			}
			for _, b := range init.Blocks {
				for _, ins := range b.Instrs {
					if st, ok := ins.(*ssa.Store); ok {
						var root ssa.Value = st.Addr
						for {
							switch x := root.(type) {
							case *ssa.FieldAddr:
								root = x.X
								continue
							case *ssa.IndexAddr:
								root = x.X
								continue
							}
							break
						}
						if gg, ok := root.(*ssa.Global); ok {
							p.initStores[gg] = true
						}
					}
				}
			}
		}
	}
}

var sharedInitPkgs = []string{
	"internal/oserror", "io", "io/fs", "unicode/utf8", "strconv", "bytes", "strings", "sort",
	"container/list", "encoding/binary", "context", "math/bits", "encoding/csv",
	"bufio",
}

func (p *Program) isInitRun(sp *ssa.Package) bool {
	p.sharedMu.RLock()
	defer p.sharedMu.RUnlock()
	return p.initRun[sp]
}

// lazyInit runs the initialiser of a standard-library package on first use.
func (p *Program) lazyInit(sp *ssa.Package) bool {
	path := sp.Pkg.Path()
	if strings.Contains(strings.SplitN(path, "/", 2)[0], ".") {
		return false // not the standard library
	}
	p.lazyMu.Lock()
	defer p.lazyMu.Unlock()
	if p.isInitRun(sp) {
		return true
	}
	if p.initFailed[sp] {
		return false
	}
	boot := &Machine{P: p, cfg: DefaultConfig(), lazyBoot: true}
	ok := true
	func() {
		defer func() {
			if r := recover(); r != nil {
				ok = false
			}
		}()
		saved := p.perPathPkgs
		boot.prefix = nil
		boot.globals = map[*ssa.Global]*Value{}
		p.sharedMu.RLock()
		for g, v := range p.sharedGlobals {
			boot.globals[g] = v
		}
		p.sharedMu.RUnlock()
		_ = saved
		boot.vars = map[string]uint8{}
		boot.known = map[uint64][]knownCond{}
		boot.dom = map[string]*[4]uint64{}
		boot.multi = map[string]bool{}
		boot.loopCount = map[loopKey]int{}
		boot.mutexes = map[*Value]*mutexState{}
		boot.gs = []*G{{id: 0, wake: make(chan struct{}, 1)}}
		boot.cur = boot.gs[0]
		boot.pathStart = time.Now()
		for _, mem := range sp.Members {
			if g, ok := mem.(*ssa.Global); ok {
				cell := zero(deref(g.Type()))
				boot.globals[g] = &cell
			}
		}
		if init := sp.Func("init"); init != nil {
			boot.call(nil, token.NoPos, init, nil)
		}
	}()
	if !ok {
		if p.initFailed == nil {
			p.initFailed = map[*ssa.Package]bool{}
		}
		p.initFailed[sp] = true
		return false
	}
	p.sharedMu.Lock()
	for _, mem := range sp.Members {
		if g, ok := mem.(*ssa.Global); ok {
			p.sharedGlobals[g] = boot.globals[g]
		}
	}
	p.initRun[sp] = true
	p.sharedMu.Unlock()
	return true
}

func moduleDir(repoDir, mod string) (string, error) {
	cmd := exec.Command("go", "list", "-m", "-f", "{{.Dir}}", mod)
	cmd.Dir = repoDir
	cmd.Env = append(os.Environ(), "GOFLAGS=-mod=mod", "GOPROXY=off", "GOSUMDB=off", "GOTOOLCHAIN=local")
	out, err := cmd.Output()
	if err != nil {
		return "", fmt.Errorf("go list -m %s: %v", mod, err)
	}
	return strings.TrimSpace(string(out)), nil
}

func Load(opts LoadOptions) (*Program, error) {
	overlay := map[string][]byte{}
	for virt, real := range opts.HarnessFiles {
		b, err := os.ReadFile(real)
		if err != nil {
			return nil, err
		}
		overlay[filepath.Join(opts.RepoDir, virt)] = b
	}
	modelPkgPaths := map[string]bool{}
	for _, ms := range opts.Models {
		dir, err := moduleDir(opts.RepoDir, ms.Module)
		if err != nil {
			return nil, err
		}
		ents, err := os.ReadDir(dir)
		if err != nil {
			return nil, err
		}
		found := false
		for _, e := range ents {
			n := e.Name()
			if e.IsDir() || !strings.HasSuffix(n, ".go") || strings.HasSuffix(n, "_test.go") {
				continue
			}
			if n == ms.FileName {
				src, err := os.ReadFile(ms.Source)
				if err != nil {
					return nil, err
				}
				overlay[filepath.Join(dir, n)] = src
				found = true
			} else {
				overlay[filepath.Join(dir, n)] = []byte("package " + ms.PkgName + "\n")
			}
		}
		if !found {
			return nil, fmt.Errorf("model carrier file %s not found in %s", ms.FileName, dir)
		}
		modelPkgPaths[ms.Module] = true
	}
	cfg := &packages.Config{
		Mode:    packages.LoadAllSyntax | packages.NeedModule,
		Dir:     opts.RepoDir,
		Overlay: overlay,
		Env:     append(os.Environ(), "GOFLAGS=-mod=mod", "GOPROXY=off", "GOSUMDB=off", "GOTOOLCHAIN=local", "CGO_ENABLED=0"),
		Fset:    token.NewFileSet(),
	}
	pkgs, err := packages.Load(cfg, opts.Patterns...)
	if err != nil {
		return nil, err
	}
	p := &Program{pkgs: pkgs, RepoDir: opts.RepoDir, byPath: map[string]*ssa.Package{}}
	var errs []string
	packages.Visit(pkgs, nil, func(pkg *packages.Package) {
		for _, e := range pkg.Errors {
			msg := e.Error()
			if strings.Contains(msg, "requires newer Go version") || strings.Contains(msg, "requires go1.") {
				p.Warnings = append(p.Warnings, msg)
				continue
			}
			errs = append(errs, pkg.PkgPath+": "+msg)
		}
	})
	if len(errs) > 0 {
		return nil, fmt.Errorf("load errors:\n%s", strings.Join(errs, "\n"))
	}
	if len(pkgs) > 0 && pkgs[0].Module != nil {
		p.RepoMod = pkgs[0].Module.Path
	}
	prog, _ := ssautil.AllPackages(pkgs, ssa.InstantiateGenerics|ssa.SanityCheckFunctions&0)
	p.prog = prog
	for _, sp := range prog.AllPackages() {
		p.byPath[sp.Pkg.Path()] = sp
	}
	// build only what we may execute: repo packages, models, and selected std packages
	p.sizes = types.SizesFor("gc", "amd64")
	var repoPkgs []*packages.Package
	packages.Visit(pkgs, nil, func(pkg *packages.Package) { // post-order = dependencies first
		if pkg.Module != nil && pkg.Module.Path == p.RepoMod || modelPkgPaths[pkg.PkgPath] {
			repoPkgs = append(repoPkgs, pkg)
		}
	})
	prog.Build()

	if rp := p.byPath["runtime"]; rp != nil {
		p.runtimeErrorString = rp.Type("errorString").Object().Type()
	} else {
		return nil, fmt.Errorf("runtime package not loaded")
	}
	if ep := p.byPath["errors"]; ep != nil {
		p.errorStringPtr = types.NewPointer(ep.Type("errorString").Object().Type())
	}
	if fp := p.byPath["fmt"]; fp != nil {
		p.wrapErrorPtr = types.NewPointer(fp.Type("wrapError").Object().Type())
	}
	p.installIntrinsics()

	for _, pkg := range repoPkgs {
		sp := p.byPath[pkg.PkgPath]
		if sp == nil {
			continue
		}
		if strings.HasSuffix(pkg.PkgPath, "/proto/updog/v1") {
			continue // generated protobuf registration is not executed; messages are plain structs
		}
		p.perPathPkgs = append(p.perPathPkgs, sp)
	}

	// run shared (std) initialisers once
	p.sharedGlobals = map[*ssa.Global]*Value{}
	p.initRun = map[*ssa.Package]bool{}
	for _, sp := range p.perPathPkgs {
		p.initRun[sp] = true
	}
	boot := &Machine{P: p, cfg: DefaultConfig()}
	sol, err := NewSolver("z3", 10000)
	if err != nil {
		return nil, err
	}
	boot.sol = sol
	defer sol.Close()
	var bootErr error
	func() {
		defer func() {
			if r := recover(); r != nil {
				bootErr = fmt.Errorf("shared init failed: %v", r)
				_ = debug.Stack
			}
		}()
		saved := p.perPathPkgs
		p.perPathPkgs = nil
		boot.sol.BeginPath()
		boot.resetPath(nil)
		p.perPathPkgs = saved
		boot.gs = []*G{{id: 0, wake: make(chan struct{}, 1)}}
		boot.cur = boot.gs[0]
		for _, path := range sharedInitPkgs {
			sp := p.byPath[path]
			if sp == nil {
				continue
			}
			for _, mem := range sp.Members {
				if g, ok := mem.(*ssa.Global); ok {
					cell := zero(deref(g.Type()))
					boot.globals[g] = &cell
				}
			}
			if init := sp.Func("init"); init != nil {
				func() {
					defer func() {
						if r := recover(); r != nil {
							p.Warnings = append(p.Warnings, fmt.Sprintf("init of %s not completed: %v", path, r))
							return
						}
						p.initRun[sp] = true
					}()
					boot.call(nil, token.NoPos, init, nil)
				}()
			} else {
				p.initRun[sp] = true
			}
		}
		boot.sol.EndPath()
	}()
	if bootErr != nil {
		return nil, bootErr
	}
	for g, v := range boot.globals {
		p.sharedGlobals[g] = v
	}
	return p, nil
}

// Func finds a package-level function by package path and name.
func (p *Program) Func(pkgPath, name string) *ssa.Function {
	sp := p.byPath[pkgPath]
	if sp == nil {
		return nil
	}
	return sp.Func(name)
}

// HarnessFuncs lists functions named Harness* of a package, sorted.
func (p *Program) HarnessFuncs(pkgPath, prefix string) []*ssa.Function {
	sp := p.byPath[pkgPath]
	if sp == nil {
		return nil
	}
	var out []*ssa.Function
	for name, mem := range sp.Members {
		if f, ok := mem.(*ssa.Function); ok && strings.HasPrefix(name, prefix) {
			out = append(out, f)
		}
	}
	sort.Slice(out, func(i, j int) bool { return out[i].Name() < out[j].Name() })
	return out
}
