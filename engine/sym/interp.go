package sym

import (
	"fmt"
	"go/token"
	"go/types"
	"path/filepath"
	"runtime"
	"strings"
	"time"

	"golang.org/x/tools/go/ssa"
)

type deferred struct {
	fn    Value
	args  []Value
	instr *ssa.Defer
	tail  *deferred
}

type frame struct {
	m                *Machine
	caller           *frame
	fn               *ssa.Function
	block, prevBlock *ssa.BasicBlock
	env              map[ssa.Value]Value
	locals           []Value
	defers           *deferred
	result           Value
	panicking        bool
	panic            interface{}
	phitemps         []Value
	g                *G
	curInstr         ssa.Instruction
}

func (fr *frame) get(key ssa.Value) Value {
	switch key := key.(type) {
	case nil:
		return nil
	case *ssa.Function:
		return key
	case *ssa.Builtin:
		return key
	case *ssa.Const:
		return fr.m.constValue(key)
	case *ssa.Global:
		return fr.m.global(key)
	}
	if r, ok := fr.env[key]; ok {
		return r
	}
	panic(fmt.Sprintf("get: no value for %T: %v in %s", key, key.Name(), fr.fn))
}

func (m *Machine) constValue(c *ssa.Const) Value {
	if c.Value == nil {
		return zero(c.Type())
	}
	t := c.Type()
	if tp, ok := t.(*types.TypeParam); ok {
		_ = tp
		unsupportedf("const of type parameter")
	}
	if b, ok := t.Underlying().(*types.Basic); ok {
		if b.Info()&types.IsString != 0 {
			return MkStr(constantString(c))
		}
		if w, signed, ok := intWidth(b); ok {
			if w == 0 {
				return KB(constantBool(c))
			}
			if signed {
				return K(w, uint64(c.Int64()))
			}
			return K(w, c.Uint64())
		}
		switch b.Kind() {
		case types.Float32, types.Float64, types.UntypedFloat:
			return Opaque{kind: "float", v: c.Float64()}
		}
	}
	unsupportedf("constant of type %s", t)
	return nil
}

func (m *Machine) pos(p token.Pos) string {
	if p == token.NoPos {
		return "?"
	}
	pp := m.P.prog.Fset.Position(p)
	return fmt.Sprintf("%s:%d", shortFile(pp.Filename), pp.Line)
}

// repoSite names the statement of the code under test (a file of the repository, not a
// harness or model file) that the current goroutine is executing: the innermost frame
// whose current instruction lies in such a file. "" if there is none.
func (m *Machine) repoSite(p token.Pos) string {
	ok := func(p token.Pos) string {
		if p == token.NoPos {
			return ""
		}
		pp := m.P.prog.Fset.Position(p)
		if !strings.HasPrefix(pp.Filename, m.P.RepoDir+"/") || strings.HasPrefix(filepath.Base(pp.Filename), "zz_verif") {
			return ""
		}
		return fmt.Sprintf("%s:%d", pp.Filename, pp.Line)
	}
	if p != token.NoPos {
		if s, hit := m.siteCache[p]; hit {
			if s != "" {
				return s
			}
		} else {
			if m.siteCache == nil {
				m.siteCache = map[token.Pos]string{}
			}
			s := ok(p)
			m.siteCache[p] = s
			if s != "" {
				return s
			}
		}
	}
	for fr := m.topFrame; fr != nil; fr = fr.caller {
		if fr.curInstr != nil {
			if s := ok(fr.curInstr.Pos()); s != "" {
				return s
			}
		}
	}
	return ""
}

func (m *Machine) addSite(s string) {
	if s == "" {
		return
	}
	for _, x := range m.sites {
		if x == s {
			return
		}
	}
	m.sites = append(m.sites, s)
}

func shortFile(f string) string {
	n := 0
	for i := len(f) - 1; i >= 0; i-- {
		if f[i] == '/' {
			n++
			if n == 2 {
				return f[i+1:]
			}
		}
	}
	return f
}

// runtimePanic raises a Go run-time panic (a runtime.Error) in the target.
func (m *Machine) runtimePanic(fr *frame, pos token.Pos, msg string) {
	p := pos
	where := m.pos(p)
	if fr != nil {
		where += " in " + fr.fn.String()
	}
	panic(targetPanic{v: Iface{t: m.P.runtimeErrorString, v: MkStr("runtime error: " + msg)}, pos: where})
}

func (fr *frame) runDefer(d *deferred) {
	var ok bool
	defer func() {
		if !ok {
			r := recover()
			if isEngineAbort(r) {
				panic(r)
			}
			fr.panicking = true
			fr.panic = r
		}
	}()
	fr.m.call(fr, d.instr.Pos(), d.fn, d.args)
	ok = true
}

func isEngineAbort(r interface{}) bool {
	switch r.(type) {
	case pathEnd, killG, violationEnd, unsupported:
		return true
	case targetPanic:
		return false
	case nil:
		return false
	}
	// host run-time errors inside the engine: treat as abort so they surface
	return true
}

func (fr *frame) runDefers() {
	for d := fr.defers; d != nil; d = d.tail {
		fr.runDefer(d)
	}
	fr.defers = nil
	if fr.panicking {
		panic(fr.panic)
	}
}

func (m *Machine) lookupMethod(typ types.Type, meth *types.Func) (fn *ssa.Function) {
	defer func() {
		// go/ssa panics when the type has no such method (a stand-in value of the engine)
		if r := recover(); r != nil {
			unsupportedf("method %s of %s: %v", meth.Name(), typ, r)
		}
	}()
	return m.P.prog.LookupMethod(typ, meth.Pkg(), meth.Name())
}

func (m *Machine) prepareCall(fr *frame, call *ssa.CallCommon, pos token.Pos) (fn Value, args []Value) {
	v := fr.get(call.Value)
	if call.Method == nil {
		fn = v
	} else {
		recv := v.(Iface)
		if recv.t == nil {
			m.runtimePanic(fr, pos, "invalid memory address or nil pointer dereference (method call on nil interface)")
		}
		f := m.lookupMethod(recv.t, call.Method)
		if f == nil {
			unsupportedf("method %s not found for %s", call.Method, recv.t)
		}
		fn = f
		args = append(args, recv.v)
	}
	for _, arg := range call.Args {
		args = append(args, fr.get(arg))
	}
	return
}

func (m *Machine) call(caller *frame, callpos token.Pos, fn Value, args []Value) Value {
	switch fn := fn.(type) {
	case *ssa.Function:
		if fn == nil {
			m.runtimePanic(caller, callpos, "invalid memory address or nil pointer dereference (call of nil func)")
		}
		return m.callSSA(caller, callpos, fn, args, nil)
	case *Closure:
		if fn == nil {
			m.runtimePanic(caller, callpos, "invalid memory address or nil pointer dereference (call of nil func)")
		}
		return m.callSSA(caller, callpos, fn.fn, args, fn.env)
	case *ssa.Builtin:
		return m.callBuiltin(caller, callpos, fn, args)
	}
	panic(fmt.Sprintf("cannot call %T", fn))
}

func (m *Machine) callSSA(caller *frame, callpos token.Pos, fn *ssa.Function, args []Value, env []Value) Value {
	fr := &frame{m: m, caller: caller, fn: fn}
	if caller != nil {
		fr.g = caller.g
	} else {
		fr.g = m.cur
	}
	if fn.Synthetic == "package initializer" && caller != nil {
		return nil // other packages' initialisers are run (or deliberately not run) by the engine
	}
	if fn.Parent() == nil {
		if fn.Blocks == nil || len(fn.Name()) > 5 && fn.Name()[:5] == "verif" {
			if ext := m.P.verifIntrinsics[fn.Name()]; ext != nil && len(fn.Name()) > 5 && fn.Name()[:5] == "verif" {
				return ext(fr, args)
			}
		}
		name := fn.String()
		if fn.Origin() != nil {
			name = fn.Origin().String()
		}
		if ext := m.P.intrinsics[name]; ext != nil {
			if m.funcsSeen != nil {
				m.funcsSeen[fn]++
			}
			return ext(fr, args)
		}
		if fn.Blocks == nil {
			unsupportedf("no code for function %s", name)
		}
	}
	if fn.TypeParams().Len() > 0 && len(fn.TypeArgs()) == 0 {
		unsupportedf("uninstantiated generic %s", fn)
	}
	m.depth++
	if m.depth > m.cfg.MaxDepth {
		m.end(EndUnwind, "call depth > %d at %s", m.cfg.MaxDepth, fn)
	}
	defer func() { m.depth-- }()
	if m.funcsSeen != nil {
		m.funcsSeen[fn]++
	}
	fr.env = make(map[ssa.Value]Value, 16)
	fr.block = fn.Blocks[0]
	fr.locals = make([]Value, len(fn.Locals))
	for i, l := range fn.Locals {
		fr.locals[i] = zero(deref(l.Type()))
		fr.env[l] = &fr.locals[i]
	}
	for i, p := range fn.Params {
		fr.env[p] = args[i]
	}
	for i, fv := range fn.FreeVars {
		fr.env[fv] = env[i]
	}
	for fr.block != nil {
		m.runFrame(fr)
	}
	return fr.result
}

func (m *Machine) runFrame(fr *frame) {
	defer func() {
		if fr.block == nil {
			return // normal return
		}
		r := recover()
		if isEngineAbort(r) {
			if _, isHost := r.(runtime.Error); isHost {
				where := fr.fn.String()
				if fr.curInstr != nil {
					where += ": " + fr.curInstr.String() + " at " + fr.m.pos(fr.curInstr.Pos())
				}
				panic(pathEnd{EndInternal, fmt.Sprintf("engine fault: %v in %s", r, where)})
			}
			panic(r)
		}
		fr.panicking = true
		fr.panic = r
		fr.runDefers()
		fr.block = fr.fn.Recover
		if fr.block == nil {
			// recovered, no named results: return zero values
			fr.result = zeroResult(fr.fn)
		}
	}()

	for {
		nonPhis := m.executePhis(fr)
		for _, instr := range nonPhis {
			m.steps++
			fr.curInstr = instr
			m.topFrame = fr
			if m.steps&0xffff == 0 && m.cfg.MaxPathSecs > 0 && time.Since(m.pathStart) > time.Duration(m.cfg.MaxPathSecs)*time.Second {
				m.end(EndUnwind, "path time limit %ds exceeded in %s", m.cfg.MaxPathSecs, fr.fn)
			}
			if m.steps > m.cfg.MaxSteps {
				m.end(EndUnwind, "step limit %d exceeded in %s", m.cfg.MaxSteps, fr.fn)
			}
			if m.visitInstr(fr, instr) == kReturn {
				return
			}
		}
	}
}

func zeroResult(fn *ssa.Function) Value {
	res := fn.Signature.Results()
	switch res.Len() {
	case 0:
		return nil
	case 1:
		return zero(res.At(0).Type())
	}
	t := make(Tuple, res.Len())
	for i := range t {
		t[i] = zero(res.At(i).Type())
	}
	return t
}

func (m *Machine) executePhis(fr *frame) []ssa.Instruction {
	firstNonPhi := -1
	for i, instr := range fr.block.Instrs {
		if _, ok := instr.(*ssa.Phi); !ok {
			firstNonPhi = i
			break
		}
	}
	nonPhis := fr.block.Instrs[firstNonPhi:]
	if firstNonPhi > 0 {
		phis := fr.block.Instrs[:firstNonPhi]
		predIndex := -1
		for i, p := range fr.block.Preds {
			if p == fr.prevBlock {
				predIndex = i
				break
			}
		}
		fr.phitemps = fr.phitemps[:0]
		for _, phi := range phis {
			phi := phi.(*ssa.Phi)
			fr.phitemps = append(fr.phitemps, fr.get(phi.Edges[predIndex]))
		}
		for i, phi := range phis {
			fr.env[phi.(*ssa.Phi)] = fr.phitemps[i]
		}
	}
	return nonPhis
}

type continuation int

const (
	kNext continuation = iota
	kReturn
	kJump
)

func (m *Machine) jump(fr *frame, to *ssa.BasicBlock) {
	// loop bound: count back edges (target index <= current index)
	if to.Index <= fr.block.Index {
		k := loopKey{fr, to}
		m.loopCount[k]++
		if m.loopCount[k] > m.cfg.MaxLoop {
			m.end(EndUnwind, "loop bound %d exceeded in %s", m.cfg.MaxLoop, fr.fn)
		}
	}
	fr.prevBlock, fr.block = fr.block, to
}

func (m *Machine) visitInstr(fr *frame, instr ssa.Instruction) continuation {
	switch instr := instr.(type) {
	case *ssa.DebugRef:
		// no-op

	case *ssa.UnOp:
		fr.env[instr] = m.unop(fr, instr, fr.get(instr.X))

	case *ssa.BinOp:
		fr.env[instr] = m.binop(fr, instr.Pos(), instr.Op, instr.X.Type(), fr.get(instr.X), fr.get(instr.Y))

	case *ssa.Call:
		fn, args := m.prepareCall(fr, &instr.Call, instr.Pos())
		fr.env[instr] = m.call(fr, instr.Pos(), fn, args)

	case *ssa.ChangeInterface:
		fr.env[instr] = fr.get(instr.X)

	case *ssa.ChangeType:
		fr.env[instr] = fr.get(instr.X)

	case *ssa.Convert:
		fr.env[instr] = m.conv(fr, instr.Type(), instr.X.Type(), fr.get(instr.X))

	case *ssa.SliceToArrayPointer:
		unsupportedf("SliceToArrayPointer")

	case *ssa.MakeInterface:
		fr.env[instr] = Iface{t: instr.X.Type(), v: fr.get(instr.X)}

	case *ssa.Extract:
		fr.env[instr] = fr.get(instr.Tuple).(Tuple)[instr.Index]

	case *ssa.Slice:
		fr.env[instr] = m.sliceOp(fr, instr, fr.get(instr.X), fr.get(instr.Low), fr.get(instr.High), fr.get(instr.Max))

	case *ssa.Return:
		switch len(instr.Results) {
		case 0:
		case 1:
			fr.result = fr.get(instr.Results[0])
		default:
			res := make(Tuple, 0, len(instr.Results))
			for _, r := range instr.Results {
				res = append(res, fr.get(r))
			}
			fr.result = res
		}
		fr.block = nil
		return kReturn

	case *ssa.RunDefers:
		fr.runDefers()

	case *ssa.Panic:
		panic(targetPanic{v: fr.get(instr.X), pos: m.pos(instr.Pos())})

	case *ssa.Send:
		m.chanSend(fr, fr.get(instr.Chan).(*Chan), fr.get(instr.X), instr.Pos())

	case *ssa.Store:
		m.store(fr, instr.Pos(), fr.get(instr.Addr), fr.get(instr.Val))

	case *ssa.If:
		c := fr.get(instr.Cond).(*Term)
		succ := 1
		if m.branch(c) {
			succ = 0
		}
		m.jump(fr, fr.block.Succs[succ])
		return kJump

	case *ssa.Jump:
		m.jump(fr, fr.block.Succs[0])
		return kJump

	case *ssa.Defer:
		fn, args := m.prepareCall(fr, &instr.Call, instr.Pos())
		if instr.DeferStack != nil {
			unsupportedf("defer with explicit DeferStack")
		}
		fr.defers = &deferred{fn: fn, args: args, instr: instr, tail: fr.defers}

	case *ssa.Go:
		fn, args := m.prepareCall(fr, &instr.Call, instr.Pos())
		m.spawn(fr, instr.Pos(), fn, args)

	case *ssa.MakeChan:
		n := m.concreteInt(fr.get(instr.Size), "chan size")
		fr.env[instr] = &Chan{cap: n, elem: instr.Type().Underlying().(*types.Chan).Elem()}

	case *ssa.Alloc:
		var addr *Value
		if instr.Heap {
			addr = new(Value)
			fr.env[instr] = addr
		} else {
			addr = fr.env[instr].(*Value)
		}
		*addr = zero(deref(instr.Type()))
		if m.lockset != nil && m.locksetOn {
			m.lockset.allocated(m, addr)
		}

	case *ssa.MakeSlice:
		n := m.smallInt(fr.get(instr.Len), "make len")
		c := n
		if instr.Cap != instr.Len {
			c = m.smallInt(fr.get(instr.Cap), "make cap")
		}
		if n < 0 || c < n || c > 1<<24 {
			m.runtimePanic(fr, instr.Pos(), "makeslice: len out of range")
		}
		tElt := instr.Type().Underlying().(*types.Slice).Elem()
		sl := m.makeSlice(tElt, n, c)
		if m.lockset != nil && m.locksetOn {
			m.lockset.allocatedObj(m, sl.a)
			for i := range sl.a.v {
				m.lockset.allocated(m, &sl.a.v[i])
			}
		}
		fr.env[instr] = sl

	case *ssa.MakeMap:
		nm := &Map{ktype: instr.Type().Underlying().(*types.Map).Key()}
		if m.lockset != nil && m.locksetOn {
			m.lockset.allocatedObj(m, nm)
		}
		fr.env[instr] = nm

	case *ssa.Range:
		if m.lockset != nil && m.locksetOn {
			if mp, ok := fr.get(instr.X).(*Map); ok && mp != nil {
				m.lockset.access(m, mp, false, instr.Pos())
			}
		}
		fr.env[instr] = m.rangeIter(fr, fr.get(instr.X), instr.X.Type())

	case *ssa.Next:
		fr.env[instr] = m.iterNext(fr, fr.get(instr.Iter), instr)

	case *ssa.FieldAddr:
		x := fr.get(instr.X)
		switch x := x.(type) {
		case *Value:
			if x == nil {
				m.runtimePanic(fr, instr.Pos(), "invalid memory address or nil pointer dereference")
			}
			fr.env[instr] = &(*x).(Struct)[instr.Field]
		case *SymRef:
			np := append(append([]int(nil), x.path...), instr.Field)
			fr.env[instr] = &SymRef{elems: x.elems, idx: x.idx, path: np}
		default:
			panic(fmt.Sprintf("FieldAddr on %T", x))
		}

	case *ssa.Field:
		fr.env[instr] = fr.get(instr.X).(Struct)[instr.Field]

	case *ssa.IndexAddr:
		fr.env[instr] = m.indexAddr(fr, instr, fr.get(instr.X), fr.get(instr.Index))

	case *ssa.Index:
		fr.env[instr] = m.index(fr, instr, fr.get(instr.X), fr.get(instr.Index))

	case *ssa.Lookup:
		if m.lockset != nil && m.locksetOn {
			if mp, ok := fr.get(instr.X).(*Map); ok && mp != nil {
				m.lockset.access(m, mp, false, instr.Pos())
			}
		}
		fr.env[instr] = m.lookup(fr, instr, fr.get(instr.X), fr.get(instr.Index))

	case *ssa.MapUpdate:
		mp := fr.get(instr.Map).(*Map)
		if mp == nil {
			panic(targetPanic{v: Iface{t: m.P.runtimeErrorString, v: MkStr("assignment to entry in nil map")}, pos: m.pos(instr.Pos())})
		}
		if m.lockset != nil && m.locksetOn {
			m.lockset.access(m, mp, true, instr.Pos())
		}
		m.mapInsert(mp, fr.get(instr.Key), copyVal(fr.get(instr.Value)))

	case *ssa.TypeAssert:
		fr.env[instr] = m.typeAssert(fr, instr, fr.get(instr.X).(Iface))

	case *ssa.MakeClosure:
		var bindings []Value
		for _, b := range instr.Bindings {
			bindings = append(bindings, fr.get(b))
		}
		fr.env[instr] = &Closure{instr.Fn.(*ssa.Function), bindings}

	case *ssa.Select:
		fr.env[instr] = m.selectOp(fr, instr)

	default:
		unsupportedf("instruction %T", instr)
	}
	return kNext
}

// smallInt returns a concrete value for an integer that may be symbolic by forking over
// 0..256 (lengths computed from symbolic contents, e.g. a separator count).
func (m *Machine) smallInt(v Value, what string) int {
	t := v.(*Term)
	if t.IsConst() {
		return int(sx(t.val, t.w))
	}
	t = Zext(t, 64)
	i := m.forkIndex(t, 257, what)
	if i < 0 {
		unsupportedf("symbolic %s above 256", what)
	}
	return i
}

func (m *Machine) concreteInt(v Value, what string) int {
	t := v.(*Term)
	if !t.IsConst() {
		unsupportedf("symbolic %s", what)
	}
	return int(sx(t.val, t.w))
}

// load reads through a pointer value.
func (m *Machine) load(fr *frame, pos token.Pos, p Value) Value {
	switch p := p.(type) {
	case *Value:
		if p == nil {
			m.runtimePanic(fr, pos, "invalid memory address or nil pointer dereference")
		}
		if m.lockset != nil && m.locksetOn {
			m.lockset.access(m, p, false, pos)
		}
		return copyVal(*p)
	case *SymRef:
		return m.symLoad(p)
	}
	panic(fmt.Sprintf("load through %T", p))
}

func (m *Machine) store(fr *frame, pos token.Pos, p Value, v Value) {
	switch p := p.(type) {
	case *Value:
		if p == nil {
			m.runtimePanic(fr, pos, "invalid memory address or nil pointer dereference")
		}
		if m.lockset != nil && m.locksetOn {
			m.lockset.access(m, p, true, pos)
		}
		assignInPlace(p, v)
		return
	case *SymRef:
		// fork over the index
		i := m.forkIndex(p.idx, len(p.elems), "store-index")
		if i < 0 {
			m.end(EndInternal, "symbolic store index out of range after bounds check")
		}
		cell := &p.elems[i]
		for _, f := range p.path {
			cell = &(*cell).(Struct)[f]
		}
		assignInPlace(cell, v)
		return
	}
	panic(fmt.Sprintf("store through %T", p))
}

// assignInPlace stores v into the cell, writing aggregates element by element into the
// existing storage so that pointers to fields or elements taken earlier stay valid (as they
// do in real memory).
func assignInPlace(dst *Value, v Value) {
	switch nv := v.(type) {
	case Struct:
		if old, ok := (*dst).(Struct); ok && len(old) == len(nv) {
			for i := range nv {
				assignInPlace(&old[i], nv[i])
			}
			return
		}
	case Array:
		if old, ok := (*dst).(Array); ok && len(old) == len(nv) {
			for i := range nv {
				assignInPlace(&old[i], nv[i])
			}
			return
		}
	}
	*dst = copyVal(v)
}

func pathGet(v Value, path []int) Value {
	for _, f := range path {
		switch vv := v.(type) {
		case Struct:
			v = vv[f]
		case Array:
			v = vv[f]
		}
	}
	return v
}

// symLoad builds an ite term over the elements for a load through a symbolic index.
func (m *Machine) symLoad(p *SymRef) Value {
	n := len(p.elems)
	vals := make([]Value, n)
	for i := range vals {
		vals[i] = pathGet(p.elems[i], p.path)
	}
	return m.iteSelect(p.idx, vals)
}

func (m *Machine) iteSelect(idx *Term, vals []Value) Value {
	n := len(vals)
	w := int(idx.w)
	switch vals[0].(type) {
	case *Term:
		// range-compressed: runs of identical values
		ts := make([]*Term, n)
		for i, v := range vals {
			ts[i] = v.(*Term)
		}
		var starts []int
		var rvals []*Term
		for i := 0; i < n; i++ {
			if i == 0 || !sameTerm(ts[i], ts[i-1]) {
				starts = append(starts, i)
				rvals = append(rvals, ts[i])
			}
		}
		k := len(rvals) - 1
		res := rvals[k]
		for j := k - 1; j >= 0; j-- {
			res = Ite(Cmp(OpUlt, idx, K(w, uint64(starts[j+1]))), rvals[j], res)
		}
		return res
	case Struct:
		s0 := vals[0].(Struct)
		out := make(Struct, len(s0))
		for f := range s0 {
			sub := make([]Value, n)
			for i := range vals {
				sub[i] = vals[i].(Struct)[f]
			}
			out[f] = m.iteSelect(idx, sub)
		}
		return out
	case Array:
		s0 := vals[0].(Array)
		out := make(Array, len(s0))
		for f := range s0 {
			sub := make([]Value, n)
			for i := range vals {
				sub[i] = vals[i].(Array)[f]
			}
			out[f] = m.iteSelect(idx, sub)
		}
		return out
	}
	// non-scalar elements: fork
	i := m.forkIndex(idx, n, "load-index")
	if i < 0 {
		m.end(EndInternal, "symbolic load index out of range after bounds check")
	}
	return copyVal(vals[i])
}

func sameTerm(a, b *Term) bool {
	if a == b {
		return true
	}
	return a.op == OpConst && b.op == OpConst && a.w == b.w && a.val == b.val
}

// indexCheck decides 0 <= idx < n, forking into the panic path when feasible.
func (m *Machine) indexCheck(fr *frame, pos token.Pos, idx *Term, n int) {
	var inRange *Term
	if idx.w == 64 {
		inRange = Cmp(OpUlt, idx, K(64, uint64(n))) // negative values are huge unsigned
	} else {
		inRange = Cmp(OpUlt, Zext(idx, 64), K(64, uint64(n)))
	}
	if !m.branch(inRange) {
		m.runtimePanic(fr, pos, fmt.Sprintf("index out of range [%s] with length %d", showValue(idx), n))
	}
}

func signedOf(t types.Type) bool {
	_, s, _ := intWidth(t)
	return s
}

func (m *Machine) indexAddr(fr *frame, instr *ssa.IndexAddr, x, idxv Value) Value {
	idx := idxv.(*Term)
	// normalise the index to 64 bits according to its signedness
	idx = m.toInt64(idx, instr.Index.Type())
	switch x := x.(type) {
	case Slice:
		m.indexCheck(fr, instr.Pos(), idx, x.len)
		if idx.IsConst() {
			return x.At(int(idx.val))
		}
		if x.len == 1 {
			return x.At(0)
		}
		return &SymRef{elems: x.a.v[x.off : x.off+x.len], idx: idx}
	case *Value:
		if x == nil {
			m.runtimePanic(fr, instr.Pos(), "invalid memory address or nil pointer dereference")
		}
		arr := (*x).(Array)
		m.indexCheck(fr, instr.Pos(), idx, len(arr))
		if idx.IsConst() {
			return &arr[idx.val]
		}
		return &SymRef{elems: arr, idx: idx}
	case *SymRef:
		unsupportedf("IndexAddr on symbolic reference")
	}
	panic(fmt.Sprintf("IndexAddr on %T", x))
}

func (m *Machine) toInt64(idx *Term, t types.Type) *Term {
	if idx.w == 64 {
		return idx
	}
	if signedOf(t) {
		return Sext(idx, 64)
	}
	return Zext(idx, 64)
}

func (m *Machine) index(fr *frame, instr *ssa.Index, x, idxv Value) Value {
	idx := m.toInt64(idxv.(*Term), instr.Index.Type())
	switch x := x.(type) {
	case Array:
		m.indexCheck(fr, instr.Pos(), idx, len(x))
		if idx.IsConst() {
			return copyVal(x[idx.val])
		}
		return m.iteSelect(idx, x)
	case Str:
		m.indexCheck(fr, instr.Pos(), idx, x.Len())
		if idx.IsConst() {
			return x.Byte(int(idx.val))
		}
		vals := make([]Value, x.Len())
		for i := range vals {
			vals[i] = x.Byte(i)
		}
		return m.iteSelect(idx, vals)
	}
	panic(fmt.Sprintf("Index on %T", x))
}

func (m *Machine) makeSlice(elem types.Type, n, c int) Slice {
	b := &Backing{v: make([]Value, c), esize: m.P.sizes.Sizeof(elem)}
	for i := range b.v {
		b.v[i] = zero(elem)
	}
	return Slice{a: b, off: 0, len: n, cap: c}
}

func (m *Machine) sliceOp(fr *frame, instr *ssa.Slice, x, lo, hi, max Value) Value {
	geti := func(v Value, def int) int {
		if v == nil {
			return def
		}
		t := v.(*Term)
		if !t.IsConst() {
			unsupportedf("symbolic slice bound at %s", m.pos(instr.Pos()))
		}
		return int(sx(t.val, t.w))
	}
	switch x := x.(type) {
	case Str:
		l := geti(lo, 0)
		h := geti(hi, x.Len())
		if l < 0 || h < l || h > x.Len() {
			m.runtimePanic(fr, instr.Pos(), fmt.Sprintf("slice bounds out of range [%d:%d] with length %d", l, h, x.Len()))
		}
		return x.Sub(l, h)
	case Slice:
		l := geti(lo, 0)
		h := geti(hi, x.len)
		mx := geti(max, x.cap)
		if l < 0 || h < l || mx < h || mx > x.cap {
			m.runtimePanic(fr, instr.Pos(), fmt.Sprintf("slice bounds out of range [%d:%d:%d] with capacity %d", l, h, mx, x.cap))
		}
		if x.a == nil {
			return Slice{}
		}
		return Slice{a: x.a, off: x.off + l, len: h - l, cap: mx - l}
	case *Value:
		if x == nil {
			m.runtimePanic(fr, instr.Pos(), "invalid memory address or nil pointer dereference")
		}
		arr := (*x).(Array)
		l := geti(lo, 0)
		h := geti(hi, len(arr))
		mx := geti(max, len(arr))
		if l < 0 || h < l || mx < h || mx > len(arr) {
			m.runtimePanic(fr, instr.Pos(), fmt.Sprintf("slice bounds out of range [%d:%d:%d] with capacity %d", l, h, mx, len(arr)))
		}
		elem := deref(instr.X.Type()).Underlying().(*types.Array).Elem()
		b := &Backing{v: arr, esize: m.P.sizes.Sizeof(elem)}
		return Slice{a: b, off: l, len: h - l, cap: mx - l}
	}
	panic(fmt.Sprintf("slice of %T", x))
}

func (m *Machine) typeAssert(fr *frame, instr *ssa.TypeAssert, itf Iface) Value {
	var ok bool
	if itf.t != nil {
		if types.IsInterface(instr.AssertedType) {
			ok = m.implements(itf.t, instr.AssertedType.Underlying().(*types.Interface))
		} else {
			ok = types.Identical(itf.t, instr.AssertedType)
		}
	}
	var v Value
	if ok {
		if types.IsInterface(instr.AssertedType) {
			v = itf
		} else {
			v = itf.v
		}
	}
	if instr.CommaOk {
		if !ok {
			v = zero(instr.AssertedType)
		}
		return Tuple{v, KB(ok)}
	}
	if !ok {
		msg := fmt.Sprintf("interface conversion: interface is %v, not %s", itf.t, instr.AssertedType)
		panic(targetPanic{v: Iface{t: m.P.runtimeErrorString, v: MkStr(msg)}, pos: m.pos(instr.Pos())})
	}
	return v
}

func (m *Machine) implements(t types.Type, it *types.Interface) bool {
	return types.Implements(t, it)
}
