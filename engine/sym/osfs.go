package sym

import (
	"fmt"
	"go/token"
	"go/types"
	"strings"
)

// ghostFile is one entry of the ghost file system shared by os.* intrinsics and the
// bbolt model. kind: 0 absent, 1 empty, 2 arbitrary bytes, 3 bbolt database, 4 dangling
// symbolic link, 5 directory.
type ghostFile struct {
	kind int
	gen  int     // bumped on every mutation of the file's existence or content
	data []*Term // content, when it was written through os.WriteFile (nil: not tracked)
}

const (
	oRDONLY = 0x0
	oWRONLY = 0x1
	oRDWR   = 0x2
	oCREATE = 0x40
	oEXCL   = 0x80
	oTRUNC  = 0x200
	oAPPEND = 0x400
)

func typesByte() types.Type { return types.Typ[types.Uint8] }

func (m *Machine) ghost(path string) *ghostFile {
	g := m.ghostFS[path]
	if g == nil {
		g = &ghostFile{}
		m.ghostFS[path] = g
	}
	return g
}

// touchParent: creating or removing an entry changes the directory that holds it (only
// directories the harness made are tracked).
func (m *Machine) touchParent(path string) {
	if i := strings.LastIndexByte(path, '/'); i > 0 {
		if pg := m.ghostFS[path[:i]]; pg != nil && pg.kind == 5 {
			pg.gen++
		}
	}
}

// mkFileInfo builds the *os.fileStat the real os.Stat returns (name and mode filled in), so
// that IsDir, Mode and Name run the library's own methods.
func (m *Machine) mkFileInfo(path string, isDir bool) Value {
	if m.P.byPath["os"] == nil || m.P.byPath["os"].Type("fileStat") == nil {
		return Iface{t: types.Typ[types.String], v: MkStr("fileinfo:" + path)}
	}
	ft := m.P.namedType("os", "fileStat")
	st := ft.Underlying().(*types.Struct)
	s := zero(ft).(Struct)
	for i := 0; i < st.NumFields(); i++ {
		switch st.Field(i).Name() {
		case "name":
			s[i] = MkStr(path[strings.LastIndexByte(path, '/')+1:])
		case "mode":
			if isDir {
				s[i] = K(32, 1<<31|0755)
			} else {
				s[i] = K(32, 0644)
			}
		}
	}
	var cell Value = s
	return Iface{t: types.NewPointer(ft), v: &cell}
}

func (m *Machine) newFileValue(fr *frame, name string) Value {
	ft := m.P.namedType("os", "File")
	cell := zero(ft)
	p := &cell
	if m.openFiles == nil {
		m.openFiles = map[*Value]string{}
	}
	m.openFiles[p] = name
	return p
}

// Errno values of linux/amd64 used by the ghost file system.
const (
	eNOENT = 2
	eEXIST = 17
	eMFILE = 24
)

// mkPathError builds the error the os package returns: *fs.PathError{Op, Path, syscall.Errno},
// so that errors.Is / os.IsExist / os.IsNotExist classify it as they classify the real one.
func (m *Machine) mkPathError(op, path string, errno uint64) Iface {
	if m.P.byPath["io/fs"] == nil || m.P.byPath["syscall"] == nil {
		return m.mkError(op + " " + path + ": " + errnoText(errno))
	}
	pe := m.P.namedType("io/fs", "PathError")
	en := m.P.namedType("syscall", "Errno")
	var cell Value = Struct{MkStr(op), MkStr(path), Iface{t: en, v: K(64, errno)}}
	return Iface{t: types.NewPointer(pe), v: &cell}
}

func errnoText(e uint64) string {
	switch e {
	case eNOENT:
		return "no such file or directory"
	case eEXIST:
		return "file exists"
	case eMFILE:
		return "too many open files"
	case 13:
		return "permission denied"
	case 20:
		return "not a directory"
	case 21:
		return "is a directory"
	}
	return fmt.Sprintf("errno %d", e)
}

// fsAdversaryPoint: the environment (another process) may create the watched path, once, just
// before any file system operation of the code under analysis — provided the path does not
// exist at that moment (an exclusive create by the other process). Each possibility is a
// fork of the path.
func (m *Machine) fsAdversaryPoint() {
	if m.advPath == "" || m.advActed {
		return
	}
	g := m.ghost(m.advPath)
	if g.kind != 0 {
		return
	}
	if m.decideN("fs-adversary", 2, nil) == 1 {
		g.kind = 2
		g.data = nil
		g.gen++
		m.advActed = true
		m.advGen = g.gen
		m.schedUsed = true // natively a matter of timing: replayed in the stress loop
		m.fsLog = append(m.fsLog, "another process creates "+m.advPath)
		m.addSite(m.repoSite(token.NoPos))
	}
}

func (m *Machine) osOpenFile(fr *frame, name Str, flag *Term) Value {
	if !name.IsConcrete() {
		unsupportedf("os.OpenFile with symbolic path")
	}
	m.fsAdversaryPoint()
	path := name.Concrete()
	if m.fsFault {
		// descriptor exhaustion: open fails before the kernel looks at the path
		return Tuple{(*Value)(nil), m.mkPathError("open", path, eMFILE)}
	}
	g := m.ghost(path)
	bit := func(b uint64) bool {
		return m.branch(BNot(Cmp(OpEq, Bin(OpAnd, flag, K(64, b)), K(64, 0))))
	}
	create := bit(oCREATE)
	nilFile := (*Value)(nil)
	if g.kind == 4 {
		// dangling symbolic link: open follows it; O_CREATE creates the target (unless
		// O_EXCL, which refuses to follow a link), anything else fails with ENOENT
		if !create {
			return Tuple{nilFile, m.mkPathError("open", path, eNOENT)}
		}
		if bit(oEXCL) {
			return Tuple{nilFile, m.mkPathError("open", path, eEXIST)}
		}
		g.kind = 1
		g.data = nil
		g.gen++
		m.fsLog = append(m.fsLog, "create through dangling symlink "+path)
		return Tuple{m.newFileValue(fr, path), Iface{}}
	}
	if g.kind == 0 {
		if !create {
			return Tuple{nilFile, m.mkPathError("open", path, eNOENT)}
		}
		g.kind = 1
		g.data = nil
		g.gen++
		m.touchParent(path)
		m.fsLog = append(m.fsLog, "create "+path)
		return Tuple{m.newFileValue(fr, path), Iface{}}
	}
	if g.kind == 5 {
		// a directory: exclusive create finds the name taken, any other create or write
		// access is refused, reading is allowed
		if create && bit(oEXCL) {
			return Tuple{nilFile, m.mkPathError("open", path, eEXIST)}
		}
		if create || bit(oWRONLY) || bit(oRDWR) {
			return Tuple{nilFile, m.mkPathError("open", path, 21)}
		}
		return Tuple{m.newFileValue(fr, path), Iface{}}
	}
	// exists
	if create && bit(oEXCL) {
		return Tuple{nilFile, m.mkPathError("open", path, eEXIST)}
	}
	if bit(oTRUNC) {
		// truncation needs write access
		if bit(oWRONLY) || bit(oRDWR) {
			g.kind = 1
			g.data = nil
			g.gen++
			m.fsLog = append(m.fsLog, "truncate "+path)
		}
	}
	return Tuple{m.newFileValue(fr, path), Iface{}}
}

func (p *Program) installOS() {
	in := p.intrinsics
	in["os.OpenFile"] = func(fr *frame, a []Value) Value {
		return fr.m.osOpenFile(fr, a[0].(Str), a[1].(*Term))
	}
	in["os.Open"] = func(fr *frame, a []Value) Value {
		return fr.m.osOpenFile(fr, a[0].(Str), K(64, oRDONLY))
	}
	in["os.Create"] = func(fr *frame, a []Value) Value {
		return fr.m.osOpenFile(fr, a[0].(Str), K(64, oRDWR|oCREATE|oTRUNC))
	}
	in["os.CreateTemp"] = func(fr *frame, a []Value) Value {
		m := fr.m
		m.fsAdversaryPoint()
		m.tempSeq++
		path := fmt.Sprintf("/ghost/tmp/%d_%s", m.tempSeq, a[1].(Str).Concrete())
		g := m.ghost(path)
		g.kind = 1
		g.data = nil
		g.gen++
		return Tuple{m.newFileValue(fr, path), Iface{}}
	}
	statFn := func(follow bool) intrinsicFn {
		op := "lstat"
		if follow {
			op = "stat"
		}
		return func(fr *frame, a []Value) Value {
			m := fr.m
			m.fsAdversaryPoint()
			path := a[0].(Str).Concrete()
			g := m.ghost(path)
			if g.kind == 0 || (follow && g.kind == 4) {
				return Tuple{Iface{}, m.mkPathError(op, path, eNOENT)}
			}
			return Tuple{m.mkFileInfo(path, g.kind == 5), Iface{}}
		}
	}
	in["os.Stat"] = statFn(true)
	in["os.Lstat"] = statFn(false)
	in["os.WriteFile"] = func(fr *frame, a []Value) Value {
		m := fr.m
		m.fsAdversaryPoint()
		path := a[0].(Str).Concrete()
		g := m.ghost(path)
		bs := sliceTerms(a[1].(Slice))
		g.kind = 2
		if len(bs) == 0 {
			g.kind = 1
		}
		g.data = append([]*Term{}, bs...)
		g.gen++
		m.fsLog = append(m.fsLog, "write "+path)
		return Iface{}
	}
	in["os.ReadFile"] = func(fr *frame, a []Value) Value {
		m := fr.m
		m.fsAdversaryPoint()
		path := a[0].(Str).Concrete()
		g := m.ghost(path)
		switch {
		case g.kind == 0 || g.kind == 4:
			return Tuple{Slice{}, m.mkPathError("open", path, eNOENT)}
		case g.kind == 1:
			return Tuple{m.makeSlice(byteType, 0, 0), Iface{}}
		case g.kind == 2 && g.data != nil:
			sl := m.makeSlice(byteType, len(g.data), len(g.data))
			for i, t := range g.data {
				*sl.At(i) = t
			}
			return Tuple{sl, Iface{}}
		}
		unsupportedf("os.ReadFile of a file whose bytes the ghost file system does not track")
		return nil
	}
	in["os.Rename"] = func(fr *frame, a []Value) Value {
		m := fr.m
		m.fsAdversaryPoint()
		from, to := a[0].(Str).Concrete(), a[1].(Str).Concrete()
		src, dst := m.ghost(from), m.ghost(to)
		if src.kind == 0 {
			return m.mkError("rename " + from + " " + to + ": no such file or directory")
		}
		if from == to {
			return Iface{}
		}
		// rename(2) replaces an existing destination atomically
		dst.kind = src.kind
		dst.data, src.data = src.data, nil
		dst.gen++
		src.kind = 0
		src.gen++
		m.fsLog = append(m.fsLog, "rename "+from+" -> "+to)
		if sp := m.P.byPath["go.etcd.io/bbolt"]; sp != nil && sp.Func("ModelRename") != nil {
			m.call(fr, token.NoPos, sp.Func("ModelRename"), []Value{MkStr(from), MkStr(to)})
		}
		return Iface{}
	}
	in["os.Remove"] = func(fr *frame, a []Value) Value {
		m := fr.m
		m.fsAdversaryPoint()
		path := a[0].(Str).Concrete()
		g := m.ghost(path)
		if g.kind == 0 {
			return m.mkPathError("remove", path, eNOENT)
		}
		g.kind = 0
		g.data = nil
		g.gen++
		m.fsLog = append(m.fsLog, "remove "+path)
		return Iface{}
	}
	in["(*os.File).Close"] = func(fr *frame, a []Value) Value {
		p := a[0].(*Value)
		if p == nil {
			return fr.m.mkError("invalid argument")
		}
		return Iface{}
	}
	in["(*os.File).Name"] = func(fr *frame, a []Value) Value {
		p := a[0].(*Value)
		if p == nil {
			fr.m.runtimePanic(fr, token.NoPos, "invalid memory address or nil pointer dereference")
		}
		return MkStr(fr.m.openFiles[p])
	}

	// ghost file system access for the bbolt model
	in["go.etcd.io/bbolt.symFileKind"] = func(fr *frame, a []Value) Value {
		return K(64, uint64(fr.m.ghost(a[0].(Str).Concrete()).kind))
	}
	in["go.etcd.io/bbolt.symSetFileKind"] = func(fr *frame, a []Value) Value {
		g := fr.m.ghost(a[0].(Str).Concrete())
		g.kind = fr.m.concreteInt(a[1], "file kind")
		g.data = nil
		g.gen++
		return nil
	}
	in["go.etcd.io/bbolt.symFileGen"] = func(fr *frame, a []Value) Value {
		return K(64, uint64(fr.m.ghost(a[0].(Str).Concrete()).gen))
	}
	in["go.etcd.io/bbolt.symFileMutated"] = func(fr *frame, a []Value) Value {
		path := a[0].(Str).Concrete()
		fr.m.ghost(path).gen++
		fr.m.fsLog = append(fr.m.fsLog, "commit "+path)
		return nil
	}
	in["go.etcd.io/bbolt.symRaceExempt"] = func(fr *frame, a []Value) Value {
		if a[0].(*Term).val == 1 {
			fr.m.raceExempt++
		} else if fr.m.raceExempt > 0 {
			fr.m.raceExempt--
		}
		return nil
	}
	in["go.etcd.io/bbolt.symNote"] = func(fr *frame, a []Value) Value {
		fr.m.noteOnce(a[0].(Str).Concrete())
		return nil
	}
	in["(*sync.Mutex).TryLock"] = func(fr *frame, a []Value) Value {
		m := fr.m
		ms := m.mutexOf(mutexCell(fr, a[0]))
		if ms.writer == nil && len(ms.readers) == 0 {
			ms.writer = m.cur
			if m.cur.held == nil {
				m.cur.held = map[*mutexState]int{}
			}
			m.cur.held[ms] = 2
			return trueT
		}
		return falseT
	}

	// roaring model
	in["github.com/RoaringBitmap/roaring.symCard"] = func(fr *frame, a []Value) Value { return fr.m.card(a[0].(*Term)) }
	in["github.com/RoaringBitmap/roaring.symSize"] = func(fr *frame, a []Value) Value { return fr.m.sizeUF(a[0].(*Term)) }
	in["github.com/RoaringBitmap/roaring.symSerSize"] = func(fr *frame, a []Value) Value {
		m := fr.m
		bits := a[0].(*Term)
		if sh, ok := m.bmShapes[bits.name]; ok && bits.op == OpVar {
			// a bitmap from verifSizedBitmap: the serialised size the real library reports for
			// that construction. Run containers (k = 1..3 containers of one run each):
			// 5 + 10k bytes against 8 + 30k in memory. Array containers: 6 bytes more per
			// container than in memory (8194 bytes in memory per full container).
			m.nseq++
			nc := Var(fmt.Sprintf("v%d_ncont", m.nseq), 64)
			m.vars[nc.name] = 64
			body := Bin(OpSub, sh.sz, K(64, 8))
			m.assume(BAnd(Cmp(OpUle, nc, K(64, 200)),
				BAnd(Cmp(OpUle, body, Bin(OpMul, K(64, 8194), nc)),
					BOr(Cmp(OpEq, nc, K(64, 0)), Cmp(OpUlt, Bin(OpMul, K(64, 8194), Bin(OpSub, nc, K(64, 1))), body)))))
			arr := Bin(OpAdd, sh.sz, Bin(OpMul, K(64, 6), nc))
			run := Ite(Cmp(OpEq, sh.sz, K(64, 38)), K(64, 15), Ite(Cmp(OpEq, sh.sz, K(64, 68)), K(64, 25), K(64, 35)))
			m.noteOnce("model: serialised sizes of harness-built bitmaps follow the real library's layout (array containers +6 bytes each; one-run containers 5+10k)")
			return Ite(sh.isRun, run, arr)
		}
		r := UF("bmsersize", 64, bits)
		m.assertPC(Cmp(OpUlt, r, K(64, 1<<40)))
		return r
	}
	in["github.com/RoaringBitmap/roaring.symIsConcrete"] = func(fr *frame, a []Value) Value {
		return KB(a[0].(*Term).IsConst())
	}
	in["github.com/RoaringBitmap/roaring.symOutOfBound"] = func(fr *frame, a []Value) Value {
		fr.m.outOfBound++
		fr.m.end(EndOutOfBound, "%s", a[0].(Str).Concrete())
		return nil
	}
}

// installVerifModels: harness-side helpers that touch the models.
func (p *Program) installVerifModels() {
	v := p.verifIntrinsics
	const roaringPath = "github.com/RoaringBitmap/roaring"
	oneWord := func(bits Value) Value {
		b := &Backing{v: []Value{bits}, esize: 8}
		var cell Value = Struct{Slice{a: b, len: 1, cap: 1}}
		return &cell
	}
	v["verifBitmap"] = func(fr *frame, a []Value) Value { return oneWord(a[0]) }
	v["verifBits"] = func(fr *frame, a []Value) Value {
		p := a[0].(*Value)
		if p == nil {
			fr.m.runtimePanic(fr, token.NoPos, "verifBits(nil bitmap)")
		}
		w := (*p).(Struct)[0].(Slice)
		if w.len == 0 {
			return K(64, 0)
		}
		for i := 1; i < w.len; i++ {
			if t := (*w.At(i)).(*Term); !t.IsConst() || t.val != 0 {
				fr.m.end(EndOutOfBound, "verifBits: bitmap holds rows >= 64")
			}
		}
		return *w.At(0)
	}
	v["verifSizedBitmap"] = func(fr *frame, a []Value) Value {
		m := fr.m
		sz := m.newVar(a[0].(Str).Concrete(), "u64", 64)
		m.nseq++
		bits := Var(fmt.Sprintf("v%d_bmbits", m.nseq), 64)
		m.vars[bits.name] = 64
		// sizes real roaring bitmaps built from array containers can have (up to 1 MiB)
		fam := BOr(Cmp(OpEq, sz, K(64, 8)), BAnd(Cmp(OpUle, K(64, 12), sz), Cmp(OpEq, Extract(sz, 0, 1), K(1, 0))))
		// sizes 38, 68 and 98 stand for bitmaps of 1..3 run containers of one run each
		// (8 + 30k bytes in memory, much smaller when serialised), every other size for
		// array containers
		isRun := BOr(Cmp(OpEq, sz, K(64, 38)), BOr(Cmp(OpEq, sz, K(64, 68)), Cmp(OpEq, sz, K(64, 98))))
		m.assume(BAnd(fam, Cmp(OpUle, sz, K(64, 1<<20))))
		m.assertPC(Cmp(OpEq, m.sizeUF(bits), sz))
		if m.bmShapes == nil {
			m.bmShapes = map[string]bmShape{}
		}
		m.bmShapes[bits.name] = bmShape{sz: sz, isRun: isRun}
		m.noteOnce("bound: bitmap sizes range over {8} ∪ {even 12..2^20} (array-container bitmaps; 38, 68 and 98: run-container bitmaps), bound to the bitmap through the uninterpreted size function")
		return oneWord(bits)
	}
	v["verifFileKind"] = func(fr *frame, a []Value) Value {
		return K(64, uint64(fr.m.ghost(a[0].(Str).Concrete()).kind))
	}
	v["verifFileVersion"] = func(fr *frame, a []Value) Value {
		return K(64, uint64(fr.m.ghost(a[0].(Str).Concrete()).gen))
	}
	v["verifMakeFile"] = func(fr *frame, a []Value) Value {
		g := fr.m.ghost(a[0].(Str).Concrete())
		g.kind = fr.m.concreteInt(a[1], "file kind")
		g.data = nil
		g.gen++
		if g.kind == 3 {
			// an empty bbolt database: known to the bbolt model, so that opening it succeeds
			// and the code under analysis sees a database without buckets
			if sp := fr.m.P.byPath["go.etcd.io/bbolt"]; sp != nil && sp.Func("ModelMakeEmpty") != nil {
				fr.m.call(fr, token.NoPos, sp.Func("ModelMakeEmpty"), []Value{a[0]})
			}
		}
		return nil
	}
	// the environment as an adversary: see fsAdversaryPoint
	v["verifFsAdversary"] = func(fr *frame, a []Value) Value {
		m := fr.m
		m.advPath = a[0].(Str).Concrete()
		m.advActed = false
		m.noteOnce("environment: another process may create the watched path (exclusive create, fixed content) before any file system operation of the code under analysis, at most once")
		return nil
	}
	// descriptor exhaustion while on: every open fails with EMFILE (natively the harness
	// runtime really exhausts the process's descriptors)
	v["verifFsFault"] = func(fr *frame, a []Value) Value {
		fr.m.fsFault = a[0].(*Term).val == 1
		if fr.m.fsFault {
			fr.m.noteOnce("environment: while switched on, every open fails with EMFILE (descriptor exhaustion)")
		}
		return nil
	}
	v["verifFsAdversaryStop"] = func(fr *frame, a []Value) Value {
		m := fr.m
		m.fsAdversaryPoint() // or just after the last operation
		m.advPath = ""
		return KB(m.advActed)
	}
	v["verifFileIsForeign"] = func(fr *frame, a []Value) Value {
		g := fr.m.ghost(a[0].(Str).Concrete())
		return KB(fr.m.advActed && g.kind == 2 && g.gen == fr.m.advGen)
	}
	callModel := func(fr *frame, name string, args ...Value) Value {
		sp := fr.m.P.byPath["go.etcd.io/bbolt"]
		if sp == nil || sp.Func(name) == nil {
			unsupportedf("bbolt model function %s missing", name)
		}
		return fr.m.call(fr, token.NoPos, sp.Func(name), args)
	}
	v["verifBoltWriteFault"] = func(fr *frame, a []Value) Value {
		callModel(fr, "ModelCommitFault", a[0], a[1])
		fr.m.noteOnce("environment: while switched on, every commit on the named database file fails with a write error and is rolled back")
		return nil
	}
	v["verifBoltCloseFault"] = func(fr *frame, a []Value) Value {
		callModel(fr, "ModelCloseFault", a[0])
		fr.m.noteOnce("environment: the next Close of the named database file reports an unlock error although the file is released")
		return nil
	}
	v["verifFlockHeld"] = func(fr *frame, a []Value) Value { return callModel(fr, "ModelFlockHeld", a[0]) }
	v["verifCommitCount"] = func(fr *frame, a []Value) Value { return callModel(fr, "ModelCommitCount", a[0]) }
	v["verifRestoreCommit"] = func(fr *frame, a []Value) Value {
		callModel(fr, "ModelRestore", a[0], a[1], a[2])
		return nil
	}
	_ = roaringPath
}
