package sym

import (
	"go/token"

	"golang.org/x/tools/go/ssa"
)

func deepCopy(v Value, memo map[*Value]*Value) Value {
	switch x := v.(type) {
	case *Value:
		if x == nil {
			return x
		}
		if n, ok := memo[x]; ok {
			return n
		}
		n := new(Value)
		memo[x] = n
		*n = deepCopy(*x, memo)
		return n
	case Struct:
		n := make(Struct, len(x))
		for i, f := range x {
			n[i] = deepCopy(f, memo)
		}
		return n
	case Array:
		n := make(Array, len(x))
		for i, f := range x {
			n[i] = deepCopy(f, memo)
		}
		return n
	case Slice:
		if x.a == nil {
			return x
		}
		b := &Backing{v: make([]Value, x.len), esize: x.a.esize}
		for i := 0; i < x.len; i++ {
			b.v[i] = deepCopy(*x.At(i), memo)
		}
		return Slice{a: b, len: x.len, cap: x.len}
	case *Map:
		if x == nil {
			return x
		}
		n := &Map{ktype: x.ktype}
		for i := range x.keys {
			n.keys = append(n.keys, deepCopy(x.keys[i], memo))
			n.vals = append(n.vals, deepCopy(x.vals[i], memo))
		}
		n.reindex()
		return n
	case Iface:
		return Iface{t: x.t, v: deepCopy(x.v, memo)}
	}
	return v
}

func (p *Program) installDeepCopy() {
	in := p.intrinsics

	in["google.golang.org/protobuf/proto.Clone"] = func(fr *frame, a []Value) Value {
		it := a[0].(Iface)
		if it.t == nil {
			return it
		}
		return deepCopy(it, map[*Value]*Value{})
	}

	// encoding/gob as an identity blob: Decode(Encode(x)) deep-equals x.
	in["encoding/gob.NewEncoder"] = func(fr *frame, a []Value) Value {
		var cell Value = Opaque{kind: "gobenc", v: a[0]}
		return &cell
	}
	in["(*encoding/gob.Encoder).Encode"] = func(fr *frame, a []Value) Value {
		m := fr.m
		enc := (*a[0].(*Value)).(Opaque)
		w := enc.v.(Iface)
		it := a[1].(Iface)
		if it.t == nil {
			return m.mkError("gob: cannot encode nil value")
		}
		blob := deepCopy(it, map[*Value]*Value{})
		m.gobBlobs = append(m.gobBlobs, blob)
		id := len(m.gobBlobs) - 1
		data := MkStr("GOB1" + string([]byte{byte(id >> 8), byte(id)}))
		r, ok := m.callMethod(fr, w, "Write", strToByteSlice(data))
		if !ok {
			unsupportedf("gob encoder: writer %v has no Write", w.t)
		}
		if t, ok := r.(Tuple); ok {
			if e, ok := t[1].(Iface); ok && e.t != nil {
				return e
			}
		}
		return Iface{}
	}
	in["encoding/gob.NewDecoder"] = func(fr *frame, a []Value) Value {
		var cell Value = Opaque{kind: "gobdec", v: a[0]}
		return &cell
	}
	in["(*encoding/gob.Decoder).Decode"] = func(fr *frame, a []Value) Value {
		m := fr.m
		dec := (*a[0].(*Value)).(Opaque)
		r := dec.v.(Iface)
		buf := m.makeSlice(byteType, 16, 16)
		res, ok := m.callMethod(fr, r, "Read", buf)
		if !ok {
			unsupportedf("gob decoder: reader %v has no Read", r.t)
		}
		n := m.concreteInt(res.(Tuple)[0], "gob read length")
		if n == 0 {
			return m.ioEOF()
		}
		bs, conc := termsConcrete(sliceTerms(Slice{a: buf.a, off: 0, len: n, cap: n}))
		if !conc {
			unsupportedf("gob decode of symbolic bytes")
		}
		if n != 6 || string(bs[:4]) != "GOB1" {
			return m.mkError("gob: encoded data is not a gob stream (model)")
		}
		id := int(bs[4])<<8 | int(bs[5])
		if id >= len(m.gobBlobs) {
			return m.mkError("gob: unknown blob (model)")
		}
		src := deepCopy(m.gobBlobs[id], map[*Value]*Value{}).(Iface)
		dst := a[1].(Iface)
		dp, ok1 := dst.v.(*Value)
		sp, ok2 := src.v.(*Value)
		if !ok1 || !ok2 || dp == nil || sp == nil {
			return m.mkError("gob: type mismatch (model)")
		}
		*dp = *sp
		return Iface{}
	}
}

var byteType = typesByte()

func (m *Machine) ioEOF() Value {
	sp := m.P.byPath["io"]
	if sp == nil {
		unsupportedf("io not loaded")
	}
	g := sp.Var("EOF")
	return m.load(nil, token.NoPos, m.global(g))
}

var _ = (*ssa.Function)(nil)
