// Package bbolt is the transactional MODEL of go.etcd.io/bbolt v1.4.0 used by the symbolic
// engine (loaded through a go/packages overlay in place of the real package and executed by
// the same interpreter as the code under analysis). Contract: DESIGN.md §2.2 —
// atomic commits with snapshot reads, byte-wise key order, an exclusive per-path file lock
// taken in Open and released in Close, Close waits for open transactions, Put keeps the
// caller's value slice by reference until commit, the data file is opened through
// Options.OpenFile with the flags db.go computes.
package bbolt

import (
	"errors"
	"os"
	"sync"
	"time"
)

// Engine intrinsics (ghost file system). kind: 0 absent, 1 empty file, 2 other content, 3 bbolt database.
func symFileKind(path string) int
func symSetFileKind(path string, kind int)
func symFileGen(path string) int
func symFileMutated(path string)
func symNote(msg string)
func symRaceExempt(on bool)

var (
	ErrDatabaseNotOpen    = errors.New("database not open")
	ErrInvalid            = errors.New("invalid database")
	ErrTimeout            = errors.New("timeout")
	ErrTxNotWritable      = errors.New("tx not writable")
	ErrTxClosed           = errors.New("tx closed")
	ErrDatabaseReadOnly   = errors.New("database is in read-only mode")
	ErrBucketNotFound     = errors.New("bucket not found")
	ErrBucketExists       = errors.New("bucket already exists")
	ErrBucketNameRequired = errors.New("bucket name required")
	ErrKeyRequired        = errors.New("key required")
	ErrKeyTooLarge        = errors.New("key too large")
	ErrValueTooLarge      = errors.New("value too large")
	ErrIncompatibleValue  = errors.New("incompatible value")
)

type Options struct {
	Timeout         time.Duration
	NoGrowSync      bool
	NoFreelistSync  bool
	PreLoadFreelist bool
	ReadOnly        bool
	MmapFlags       int
	InitialMmapSize int
	PageSize        int
	NoSync          bool
	OpenFile        func(string, int, os.FileMode) (*os.File, error)
	Mlock           bool
}

var DefaultOptions = &Options{}

type entry struct {
	key []byte
	val []byte
}

type bucketData struct {
	entries []entry
	pos     map[string]int // key -> index in entries
}

func (bd *bucketData) find(key []byte) int {
	if i, ok := bd.pos[string(key)]; ok {
		return i
	}
	return -1
}

func (bd *bucketData) reindex() {
	bd.pos = map[string]int{}
	for i := range bd.entries {
		bd.pos[string(bd.entries[i].key)] = i
	}
}

// store is one committed state of a database file.
type store struct {
	names   []string
	buckets []*bucketData
}

func (s *store) find(name string) *bucketData {
	for i, n := range s.names {
		if n == name {
			return s.buckets[i]
		}
	}
	return nil
}

func (s *store) clone() *store {
	n := &store{}
	for i, nm := range s.names {
		n.names = append(n.names, nm)
		bd := &bucketData{}
		for _, e := range s.buckets[i].entries {
			bd.entries = append(bd.entries, entry{key: e.key, val: e.val})
		}
		bd.reindex()
		n.buckets = append(n.buckets, bd)
	}
	return n
}

// fileState is the persistent content of a path (survives Close).
type fileState struct {
	gen     int
	st      *store
	flock   sync.Mutex
	commits []*store // commit log: state after each commit (crash model); commits[0] = freshly initialised file
}

var files = map[string]*fileState{}

func fileFor(path string) *fileState {
	// the registry stands for the file system, which is not memory of the program: accesses to
	// it are not subject to the race analysis
	symRaceExempt(true)
	fs := files[path]
	if fs == nil {
		fs = &fileState{gen: -1}
		files[path] = fs
	}
	symRaceExempt(false)
	return fs
}

type DB struct {
	path     string
	fs       *fileState
	file     *os.File
	opened   bool
	readOnly bool

	rwlock   sync.Mutex   // one writer at a time
	mmaplock sync.RWMutex // read transactions hold it shared; Close takes it exclusively

	NoSync bool
}

func Open(path string, mode os.FileMode, options *Options) (*DB, error) {
	db := &DB{opened: true}
	if options == nil {
		options = DefaultOptions
	}
	flag := os.O_RDWR
	if options.ReadOnly {
		flag = os.O_RDONLY
		db.readOnly = true
	} else {
		flag |= os.O_CREATE
	}
	openFile := options.OpenFile
	if openFile == nil {
		openFile = os.OpenFile
	}
	f, err := openFile(path, flag, mode)
	if err != nil {
		return nil, err
	}
	db.file = f
	db.path = f.Name()
	fs := fileFor(db.path)
	db.fs = fs
	if !db.readOnly {
		if options.Timeout > 0 {
			if !fs.flock.TryLock() {
				_ = f.Close()
				return nil, ErrTimeout
			}
		} else {
			fs.flock.Lock() // blocks forever while another handle holds the file
		}
	}
	switch symFileKind(db.path) {
	case 1: // empty file: initialise
		fs.st = &store{}
		fs.gen = symFileGen(db.path)
		fs.commits = []*store{fs.st}
		symSetFileKind(db.path, 3)
		fs.gen = symFileGen(db.path)
	case 3:
		if fs.st == nil || fs.gen != symFileGen(db.path) {
			// a database file whose content the model does not know
			if !db.readOnly {
				fs.flock.Unlock()
			}
			_ = f.Close()
			return nil, ErrInvalid
		}
	default: // arbitrary bytes
		if !db.readOnly {
			fs.flock.Unlock()
		}
		_ = f.Close()
		return nil, ErrInvalid
	}
	return db, nil
}

func (db *DB) Path() string { return db.path }

func (db *DB) Close() error {
	db.rwlock.Lock()
	defer db.rwlock.Unlock()
	db.mmaplock.Lock()
	defer db.mmaplock.Unlock()
	if !db.opened {
		return nil
	}
	db.opened = false
	if db.file != nil {
		if !db.readOnly {
			db.fs.flock.Unlock()
		}
		_ = db.file.Close()
		db.file = nil
	}
	path := db.path
	db.path = ""
	symRaceExempt(true)
	fault := closeFaults[path]
	if fault {
		delete(closeFaults, path)
	}
	symRaceExempt(false)
	if fault {
		// an injected fault while releasing the file lock: everything is released all the
		// same (the descriptor is closed), but Close reports the error
		return errors.New("bolt.Close(): funlock error: bad file descriptor (injected close fault)")
	}
	return nil
}

type Tx struct {
	db       *DB
	writable bool
	done     bool
	root     *store
}

func (db *DB) Begin(writable bool) (*Tx, error) {
	if writable {
		if db.readOnly {
			return nil, ErrDatabaseReadOnly
		}
		db.rwlock.Lock()
		if !db.opened {
			db.rwlock.Unlock()
			return nil, ErrDatabaseNotOpen
		}
		return &Tx{db: db, writable: true, root: db.fs.st.clone()}, nil
	}
	db.mmaplock.RLock()
	if !db.opened {
		db.mmaplock.RUnlock()
		return nil, ErrDatabaseNotOpen
	}
	return &Tx{db: db, root: db.fs.st}, nil
}

func (db *DB) View(fn func(*Tx) error) error {
	tx, err := db.Begin(false)
	if err != nil {
		return err
	}
	defer func() {
		if !tx.done {
			_ = tx.Rollback()
		}
	}()
	err = fn(tx)
	if err != nil {
		_ = tx.Rollback()
		return err
	}
	return tx.Rollback()
}

func (db *DB) Update(fn func(*Tx) error) error {
	tx, err := db.Begin(true)
	if err != nil {
		return err
	}
	defer func() {
		if !tx.done {
			_ = tx.Rollback()
		}
	}()
	err = fn(tx)
	if err != nil {
		_ = tx.Rollback()
		return err
	}
	return tx.Commit()
}

func (db *DB) Sync() error { return nil }

func (tx *Tx) DB() *DB        { return tx.db }
func (tx *Tx) Writable() bool { return tx.writable }

func (tx *Tx) Commit() error {
	if tx.done {
		return ErrTxClosed
	}
	if !tx.writable {
		return ErrTxNotWritable
	}
	symRaceExempt(true)
	fault := commitFaults[tx.db.path]
	symRaceExempt(false)
	if fault {
		// an injected write fault: the commit fails and the transaction is rolled back
		tx.done = true
		tx.db.rwlock.Unlock()
		return errors.New("write " + tx.db.path + ": bad file descriptor (injected write fault)")
	}
	// values were kept by reference until now: copy them at commit time
	for _, bd := range tx.root.buckets {
		for i := range bd.entries {
			v := bd.entries[i].val
			c := make([]byte, len(v))
			copy(c, v)
			bd.entries[i].val = c
		}
	}
	fs := tx.db.fs
	fs.st = tx.root
	fs.commits = append(fs.commits, tx.root.clone())
	symFileMutated(tx.db.path)
	fs.gen = symFileGen(tx.db.path)
	tx.done = true
	tx.db.rwlock.Unlock()
	return nil
}

func (tx *Tx) Rollback() error {
	if tx.done {
		return ErrTxClosed
	}
	tx.done = true
	if tx.writable {
		tx.db.rwlock.Unlock()
	} else {
		tx.db.mmaplock.RUnlock()
	}
	return nil
}

type Bucket struct {
	tx   *Tx
	data *bucketData
	name string
}

func (tx *Tx) Bucket(name []byte) *Bucket {
	if tx.done {
		return nil
	}
	bd := tx.root.find(string(name))
	if bd == nil {
		return nil
	}
	return &Bucket{tx: tx, data: bd, name: string(name)}
}

func (tx *Tx) CreateBucket(name []byte) (*Bucket, error) {
	if tx.done {
		return nil, ErrTxClosed
	}
	if !tx.writable {
		return nil, ErrTxNotWritable
	}
	if len(name) == 0 {
		return nil, ErrBucketNameRequired
	}
	if tx.root.find(string(name)) != nil {
		return nil, ErrBucketExists
	}
	bd := &bucketData{pos: map[string]int{}}
	tx.root.names = append(tx.root.names, string(name))
	tx.root.buckets = append(tx.root.buckets, bd)
	return &Bucket{tx: tx, data: bd, name: string(name)}, nil
}

func (tx *Tx) CreateBucketIfNotExists(name []byte) (*Bucket, error) {
	if tx.done {
		return nil, ErrTxClosed
	}
	if !tx.writable {
		return nil, ErrTxNotWritable
	}
	if len(name) == 0 {
		return nil, ErrBucketNameRequired
	}
	if bd := tx.root.find(string(name)); bd != nil {
		return &Bucket{tx: tx, data: bd, name: string(name)}, nil
	}
	return tx.CreateBucket(name)
}

func (tx *Tx) DeleteBucket(name []byte) error {
	if tx.done {
		return ErrTxClosed
	}
	if !tx.writable {
		return ErrTxNotWritable
	}
	for i, n := range tx.root.names {
		if n == string(name) {
			tx.root.names = append(tx.root.names[:i:i], tx.root.names[i+1:]...)
			tx.root.buckets = append(tx.root.buckets[:i:i], tx.root.buckets[i+1:]...)
			return nil
		}
	}
	return ErrBucketNotFound
}

func (b *Bucket) Tx() *Tx        { return b.tx }
func (b *Bucket) Writable() bool { return b.tx.writable }

func (b *Bucket) Get(key []byte) []byte {
	if i := b.data.find(key); i >= 0 {
		return b.data.entries[i].val
	}
	return nil
}

func (b *Bucket) Put(key []byte, value []byte) error {
	if b.tx.done {
		return ErrTxClosed
	}
	if !b.tx.writable {
		return ErrTxNotWritable
	}
	if len(key) == 0 {
		return ErrKeyRequired
	}
	if i := b.data.find(key); i >= 0 {
		b.data.entries[i].val = value
		return nil
	}
	k := make([]byte, len(key))
	copy(k, key)
	b.data.entries = append(b.data.entries, entry{key: k, val: value})
	b.data.pos[string(k)] = len(b.data.entries) - 1
	return nil
}

func (b *Bucket) Delete(key []byte) error {
	if b.tx.done {
		return ErrTxClosed
	}
	if !b.tx.writable {
		return ErrTxNotWritable
	}
	if i := b.data.find(key); i >= 0 {
		b.data.entries = append(b.data.entries[:i:i], b.data.entries[i+1:]...)
		b.data.reindex()
	}
	return nil
}

func (b *Bucket) ForEach(fn func(k, v []byte) error) error {
	c := b.Cursor()
	for k, v := c.First(); k != nil; k, v = c.Next() {
		if err := fn(k, v); err != nil {
			return err
		}
	}
	return nil
}

// Cursor iterates in byte-wise key order over a snapshot taken at positioning time.
type Cursor struct {
	b      *Bucket
	sorted []entry
	idx    int
}

func (b *Bucket) Cursor() *Cursor { return &Cursor{b: b} }

func (c *Cursor) Bucket() *Bucket { return c.b }

func (c *Cursor) sort() {
	es := make([]entry, len(c.b.data.entries))
	copy(es, c.b.data.entries)
	c.sorted = mergeSort(es)
}

func mergeSort(a []entry) []entry {
	if len(a) < 2 {
		return a
	}
	mid := len(a) / 2
	l := mergeSort(append([]entry(nil), a[:mid]...))
	r := mergeSort(append([]entry(nil), a[mid:]...))
	out := make([]entry, 0, len(a))
	i, j := 0, 0
	for i < len(l) && j < len(r) {
		if string(r[j].key) < string(l[i].key) {
			out = append(out, r[j])
			j++
		} else {
			out = append(out, l[i])
			i++
		}
	}
	out = append(out, l[i:]...)
	out = append(out, r[j:]...)
	return out
}

func (c *Cursor) cur() ([]byte, []byte) {
	if c.idx < 0 || c.idx >= len(c.sorted) {
		return nil, nil
	}
	e := c.sorted[c.idx]
	v := e.val
	if v == nil {
		v = []byte{}
	}
	return e.key, v
}

func (c *Cursor) First() ([]byte, []byte) {
	c.sort()
	c.idx = 0
	return c.cur()
}

func (c *Cursor) Last() ([]byte, []byte) {
	c.sort()
	c.idx = len(c.sorted) - 1
	return c.cur()
}

func (c *Cursor) Next() ([]byte, []byte) {
	c.idx++
	return c.cur()
}

func (c *Cursor) Prev() ([]byte, []byte) {
	c.idx--
	return c.cur()
}

func (c *Cursor) Seek(seek []byte) ([]byte, []byte) {
	c.sort()
	c.idx = len(c.sorted)
	for i := range c.sorted {
		if string(c.sorted[i].key) >= string(seek) {
			c.idx = i
			break
		}
	}
	return c.cur()
}

// Compact copies src into dst bucket by bucket in key order, committing whenever more than
// txMaxSize bytes of keys and values have been written since the last commit (as bbolt's
// Compact does; txMaxSize 0 = one transaction).
func Compact(dst, src *DB, txMaxSize int64) error {
	tx, err := dst.Begin(true)
	if err != nil {
		return err
	}
	defer func() {
		if !tx.done {
			_ = tx.Rollback()
		}
	}()
	var size int64
	err = src.View(func(stx *Tx) error {
		for bi, name := range stx.root.names {
			c := (&Bucket{tx: stx, data: stx.root.buckets[bi], name: name}).Cursor()
			for k, v := c.First(); k != nil; k, v = c.Next() {
				sz := int64(len(k) + len(v))
				if size+sz > txMaxSize && txMaxSize != 0 {
					if err := tx.Commit(); err != nil {
						return err
					}
					tx, err = dst.Begin(true)
					if err != nil {
						return err
					}
					size = 0
				}
				size += sz
				b, err := tx.CreateBucketIfNotExists([]byte(name))
				if err != nil {
					return err
				}
				if err := b.Put(k, v); err != nil {
					return err
				}
			}
		}
		return nil
	})
	if err != nil {
		return err
	}
	return tx.Commit()
}

// ---------------------------------------------------------------------------
// back doors for harnesses (reached through the verif* runtime of the harness package)

// ModelCommitCount returns the number of committed states recorded for path.
func ModelCommitCount(path string) int {
	fs := files[path]
	if fs == nil {
		return 0
	}
	return len(fs.commits)
}

// ModelRestore makes dst a database file holding the state of src after its i-th commit.
func ModelRestore(src string, i int, dst string) {
	s := files[src]
	d := fileFor(dst)
	d.st = s.commits[i].clone()
	d.commits = []*store{d.st}
	symSetFileKind(dst, 3)
	d.gen = symFileGen(dst)
}

var commitFaults = map[string]bool{}

var closeFaults = map[string]bool{}

// ModelCloseFault makes the next Close of a read-write database open on path report an error
// (the unlock fails) although the file is released.
func ModelCloseFault(path string) {
	symRaceExempt(true)
	closeFaults[path] = true
	symRaceExempt(false)
}

// ModelCommitFault switches an injected write fault for the database file at path on or off:
// while on, every Commit of a writable transaction on it fails and rolls back.
func ModelCommitFault(path string, on bool) {
	symRaceExempt(true)
	commitFaults[path] = on
	symRaceExempt(false)
}

// ModelMakeEmpty makes path a freshly initialised database without any bucket (what bbolt.Open
// followed by Close leaves behind).
func ModelMakeEmpty(path string) {
	fs := fileFor(path)
	fs.st = &store{}
	fs.commits = []*store{fs.st}
	symSetFileKind(path, 3)
	fs.gen = symFileGen(path)
}

// ModelRename follows os.Rename: the content (and the lock, which belongs to the file, not to
// the name) moves to the new path; whatever the new path held is gone.
func ModelRename(from, to string) {
	fs := files[from]
	delete(files, from)
	delete(files, to)
	if fs != nil {
		files[to] = fs
		fs.gen = symFileGen(to)
	}
}

// ModelFlockHeld reports whether some handle holds the file lock of path.
func ModelFlockHeld(path string) bool {
	fs := files[path]
	if fs == nil {
		return false
	}
	if fs.flock.TryLock() {
		fs.flock.Unlock()
		return false
	}
	return true
}
