#!/bin/bash
# usage: seedrun.sh <seed-name> <check property> [tier]   (development aid)
# Applies /verif/seeded/<seed-name>/patch.diff to /repo, runs the property's check, reverts.
set -u
name=$1; chk=$2; tier=${3:-quick}
git -C /repo apply /verif/seeded/$name/patch.diff || { echo "cannot apply"; exit 2; }
cd /verif && timeout 2400 ./check.sh $chk $tier > /tmp/seedrun_$name.log 2>&1; rc=$?
git -C /repo checkout -- . ; git -C /repo status --short | head -3
echo "seed=$name check=$chk tier=$tier exit=$rc violations=$(grep -c '^VIOLATION' /tmp/seedrun_$name.log)"
grep "^VIOLATION\|^  [A-Z-]*: \|SPURIOUS\|INCONCLUSIVE\|^check " /tmp/seedrun_$name.log | cut -c1-400 | head -${4:-8}
cd /verif && git checkout -- evidence/$chk.json 2>/dev/null; rm -rf /verif/replays/$chk
exit 0
