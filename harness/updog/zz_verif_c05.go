package updog

import (
	"sync"

	"go.etcd.io/bbolt"
)

// C05 — flush/open round trip preserves rows, ids and schema; both writers agree.
// (Also the writer half of C01: whichever writer built the index, the answers are the same.)
// Rows are concrete and forked over; the hash of (a,x) and (a,y) is ABSTRACT (any 64-bit
// value, including 0); the unique-per-row tag column keeps its real hash.

func init() {
	verifHarnesses["HarnessC05Writers"] = HarnessC05Writers
	verifHarnesses["HarnessC05Parallel"] = HarnessC05Parallel
	verifHarnesses["HarnessC05FlushDuringAdd"] = HarnessC05FlushDuringAdd
	verifHarnesses["HarnessC05CommitFault"] = HarnessC05CommitFault
	verifHarnesses["HarnessC05Bytes"] = HarnessC05Bytes
}

type verifRow struct {
	kind int // 0 empty row, 1 tag only, 2 tag + a=x, 3 tag + a=y, 4 tag + a="" (empty value)
}

func (r verifRow) values(i int) map[string]string {
	m := map[string]string{}
	if r.kind >= 1 {
		m["t"] = verifTag(i)
	}
	switch r.kind {
	case 2:
		m["a"] = "x"
	case 3:
		m["a"] = "y"
	case 4:
		m["a"] = ""
	}
	return m
}

func verifTag(i int) string { return string([]byte{'r', byte('0' + i)}) }

type verifWriter interface {
	AddRow(values map[string]string) (uint32, error)
	Flush() error
}

// verifObserve checks every observation of the opened index against the rows added.
func verifObserve(path string, rows []verifRow, tag string) {
	for round := 0; round < 2; round++ {
		idx, err := OpenIndex(path)
		verifAssert(err == nil, tag+": the flushed file cannot be opened")
		if err != nil {
			return
		}
		verifCheckIndex(idx, rows, tag)
		verifAssert(idx.Close() == nil, tag+": Close failed")
	}
	idx, err := OpenIndex(path, WithPreloadedData())
	verifAssert(err == nil, tag+": the flushed file cannot be opened preloaded")
	if err != nil {
		return
	}
	verifCheckIndex(idx, rows, tag+" (preloaded)")
	idx.Close()
}

func verifCheckIndex(idx *Index, rows []verifRow, tag string) {
	n := len(rows)
	// expected schema
	hasA, hasT := false, false
	hasX, hasY, hasE := false, false, false
	for _, r := range rows {
		if r.kind == 4 {
			hasE = true
		}
		if r.kind >= 1 {
			hasT = true
		}
		if r.kind >= 2 {
			hasA = true
		}
		if r.kind == 2 {
			hasX = true
		}
		if r.kind == 3 {
			hasY = true
		}
	}
	var want []SchemaColumn
	if hasA {
		c := SchemaColumn{Name: "a"}
		if hasE {
			c.Values = append(c.Values, SchemaColumnValue{Value: ""})
		}
		if hasX {
			c.Values = append(c.Values, SchemaColumnValue{Value: "x"})
		}
		if hasY {
			c.Values = append(c.Values, SchemaColumnValue{Value: "y"})
		}
		want = append(want, c)
	}
	if hasT {
		c := SchemaColumn{Name: "t"}
		for i, r := range rows {
			if r.kind >= 1 {
				c.Values = append(c.Values, SchemaColumnValue{Value: verifTag(i)})
			}
		}
		want = append(want, c)
	}
	sch := idx.GetSchema()
	ok := len(sch.Columns) == len(want)
	if ok {
		for i := range want {
			if sch.Columns[i].Name != want[i].Name || len(sch.Columns[i].Values) != len(want[i].Values) {
				ok = false
				break
			}
			for j := range want[i].Values {
				if sch.Columns[i].Values[j].Value != want[i].Values[j].Value {
					ok = false
				}
			}
		}
	}
	verifAssert(ok, tag+": schema is not exactly the sorted columns and values that were added")

	count := func(e Expression) (uint64, bool) {
		res, err := idx.Execute(&Query{Expr: e})
		if err != nil {
			return 0, false
		}
		return res.Count, true
	}
	// per (a,v): exact row membership through the unique tag of every row
	for vi, v := range []string{"x", "y", ""} {
		c, ok := count(&ExprEqual{Column: "a", Value: v})
		if !hasA {
			verifAssert(!ok, tag+": query on a column that occurs in no row must fail")
			continue
		}
		wantN := 0
		for _, r := range rows {
			if r.kind == 2+vi {
				wantN++
			}
		}
		verifAssert(ok && c == uint64(wantN), tag+": (a,"+v+") does not hold for exactly the rows it was added to (count)")
		for i, r := range rows {
			if r.kind == 0 {
				continue
			}
			c, ok := count(&ExprAnd{Exprs: []Expression{&ExprEqual{Column: "a", Value: v}, &ExprEqual{Column: "t", Value: verifTag(i)}}})
			want := uint64(0)
			if r.kind == 2+vi {
				want = 1
			}
			verifAssert(ok && c == want, tag+": (a,"+v+") does not hold for exactly the rows it was added to (row membership)")
		}
		// row universe: NOT complements within all added rows, incl. empty ones
		c, ok = count(&ExprNot{Expr: &ExprEqual{Column: "a", Value: v}})
		verifAssert(ok && c == uint64(n-wantN), tag+": the row universe does not have exactly one row per AddRow call")
	}
	if hasT {
		for i, r := range rows {
			if r.kind == 0 {
				continue
			}
			c, ok := count(&ExprEqual{Column: "t", Value: verifTag(i)})
			verifAssert(ok && c == 1, tag+": a row's tag does not select exactly that row")
		}
		c, ok := count(&ExprNot{Expr: &ExprEqual{Column: "t", Value: "zz"}})
		verifAssert(ok && c == uint64(n), tag+": the row universe does not have exactly one row per AddRow call")
	}
}

func HarnessC05Writers() {
	verifAbstractHashFor("a\x00")
	maxRows := 3 + verifTier()
	n := 1 + verifChoice("nrows", maxRows)
	if verifBool("zero-rows") {
		n = 0
	}
	var rows []verifRow
	for i := 0; i < n; i++ {
		rows = append(rows, verifRow{kind: verifChoice("rowkind", 5)})
	}
	which := verifChoice("writer", 3)
	out := verifTempPath("c05.updog")
	var w verifWriter
	var db, tempDB *bbolt.DB
	var iw *IndexWriter
	var err error
	tag := "C05"
	switch which {
	case 0:
		tag = "C05 in-memory writer to file"
		w = NewIndexWriter(out)
	case 1:
		tag = "C05 in-memory writer into a caller-supplied DB"
		db, err = bbolt.Open(out, 0644, nil)
		if err != nil {
			panic(err)
		}
		iw = NewIndexWriter(verifTempPath("c05_second.updog"))
		w = verifDBWriter{iw, db}
	case 2:
		tag = "C05 big writer"
		db, err = bbolt.Open(out, 0644, nil)
		if err != nil {
			panic(err)
		}
		tempDB, err = bbolt.Open(verifTempPath("c05.tmp"), 0600, nil)
		if err != nil {
			panic(err)
		}
		bw, err := NewBigIndexWriter(db, tempDB)
		verifAssert(err == nil, tag+": NewBigIndexWriter failed")
		if err != nil {
			return
		}
		w = bw
	}
	for i, r := range rows {
		id, err := w.AddRow(r.values(i))
		verifAssert(err == nil && id == uint32(i), tag+": AddRow must assign row ids 0,1,2,... in call order")
	}
	verifAssert(w.Flush() == nil, tag+": Flush failed")
	if tempDB != nil {
		tempDB.Close()
	}
	if db != nil {
		db.Close()
	}
	verifObserve(out, rows, tag)
	if iw != nil {
		// writing an index does not use the writer up: one more row, then Flush to the
		// writer's own file yields the index of all rows added so far
		extra := verifRow{kind: 2}
		id, err := iw.AddRow(extra.values(len(rows)))
		verifAssert(err == nil && id == uint32(len(rows)), tag+": AddRow after a first write must continue the row ids")
		all := append(append([]verifRow(nil), rows...), extra)
		verifAssert(iw.Flush() == nil, tag+": Flush after WriteToBoltDatabase failed")
		idx, err := OpenIndex(verifTempPath("c05_second.updog"))
		verifAssert(err == nil, tag+": the file of a second write cannot be opened")
		if err == nil {
			verifCheckIndex(idx, all, tag+" (second write of the same writer)")
			idx.Close()
		}
	}
	verifReach("end")
}

type verifDBWriter struct {
	*IndexWriter
	db *bbolt.DB
}

func (w verifDBWriter) Flush() error { return w.IndexWriter.WriteToBoltDatabase(w.db) }

// HarnessC05Parallel: two independent writers (separate objects, separate files), each used
// by its own goroutine, add rows and flush at the same time. Independent objects share
// nothing the caller can see, so there must be no data race between them (happens-before
// analysis over all accesses, confirmed natively by the race detector) and each output must be
// the index of its own rows.
func HarnessC05Parallel() {
	kinds := [2]int{verifChoice("writer0", 2), verifChoice("writer1", 2)} // 0 in-memory, 1 big
	rows := [2][]verifRow{{{kind: 2}, {kind: 3}}, {{kind: 3}, {kind: 1}, {kind: 2}}}
	outs := [2]string{verifTempPath("c05p0.updog"), verifTempPath("c05p1.updog")}
	var ws [2]verifWriter
	var closers [2]func()
	for g := 0; g < 2; g++ {
		if kinds[g] == 1 {
			bw, closeDBs := verifBigWriter(outs[g], verifTempPath([]string{"c05p0.tmp", "c05p1.tmp"}[g]))
			ws[g], closers[g] = bw, closeDBs
		} else {
			ws[g], closers[g] = NewIndexWriter(outs[g]), func() {}
		}
	}
	var wg sync.WaitGroup
	var failed [2]bool
	verifPreemptions(verifTier())
	verifSchedule(true)
	verifLockset(true)
	for g := 0; g < 2; g++ {
		wg.Add(1)
		go func(g int) {
			defer wg.Done()
			for i, r := range rows[g] {
				id, err := ws[g].AddRow(r.values(i))
				if err != nil || id != uint32(i) {
					failed[g] = true
				}
			}
			if ws[g].Flush() != nil {
				failed[g] = true
			}
		}(g)
	}
	wg.Wait()
	verifLockset(false)
	verifSchedule(false)
	verifRaceFree("C05: two independent writers used by two goroutines share state")
	for g := 0; g < 2; g++ {
		closers[g]()
		verifAssert(!failed[g], "C05: AddRow/Flush of a writer failed while another, independent writer was in use")
		idx, err := OpenIndex(outs[g])
		verifAssert(err == nil, "C05: the file flushed next to another writer cannot be opened")
		if err == nil {
			verifCheckIndex(idx, rows[g], "C05 (writer used next to another one)")
			idx.Close()
		}
	}
	verifReach("end")
}

// HarnessC05FlushDuringAdd: one in-memory writer; a goroutine adds a row (with a value and a
// column the writer has not seen) while another one writes the index out. Whatever the
// interleaving, the file is the index of the first n rows for some n (here 1 or 2): schema,
// row counter and bitmaps describe the same rows. Race analysis over both calls.
func HarnessC05FlushDuringAdd() {
	out := verifTempPath("c05f.updog")
	w := NewIndexWriter(out)
	if _, err := w.AddRow(map[string]string{"t": "r0", "a": "x"}); err != nil {
		panic(err)
	}
	toDB := verifBool("into-caller-supplied-db")
	var db *bbolt.DB
	if toDB {
		var err error
		db, err = bbolt.Open(out, 0644, nil)
		if err != nil {
			panic(err)
		}
	}
	var wg sync.WaitGroup
	var addErr, flushErr error
	verifPreemptions(2 + verifTier())
	verifSchedule(true)
	verifLockset(true)
	wg.Add(2)
	go func() {
		defer wg.Done()
		_, addErr = w.AddRow(map[string]string{"t": "r1", "a": "y", "b": "z"})
	}()
	go func() {
		defer wg.Done()
		if toDB {
			flushErr = w.WriteToBoltDatabase(db)
		} else {
			flushErr = w.Flush()
		}
	}()
	wg.Wait()
	verifLockset(false)
	verifSchedule(false)
	verifRaceFree("C05: AddRow and a concurrent write of the index access writer state without a common lock")
	if db != nil {
		db.Close()
	}
	verifAssert(addErr == nil && flushErr == nil, "C05: AddRow or the write of the index failed when running at the same time")
	idx, err := OpenIndex(out)
	verifAssert(err == nil, "C05: an index written while a row was being added cannot be opened")
	if err != nil {
		return
	}
	count := func(e Expression) uint64 {
		res, err := idx.Execute(&Query{Expr: e})
		if err != nil {
			return 0
		}
		return res.Count
	}
	n := count(&ExprNot{Expr: &ExprEqual{Column: "t", Value: "nope"}})
	verifAssert(n == 1 || n == 2, "C05: an index written while a row was being added holds neither the rows before nor the rows after that AddRow")
	sch := idx.GetSchema()
	names := ""
	for _, c := range sch.Columns {
		names += c.Name + "{"
		for _, v := range c.Values {
			names += v.Value + ","
		}
		names += "}"
	}
	if n == 1 {
		verifAssert(names == "a{x,}t{r0,}" && count(&ExprEqual{Column: "t", Value: "r1"}) == 0, "C05: an index written while a row was being added has one row but not the schema and bitmaps of that row alone")
	} else if n == 2 {
		ok := names == "a{x,y,}b{z,}t{r0,r1,}" && count(&ExprEqual{Column: "t", Value: "r1"}) == 1 && count(&ExprEqual{Column: "b", Value: "z"}) == 1 &&
			count(&ExprAnd{Exprs: []Expression{&ExprEqual{Column: "a", Value: "y"}, &ExprEqual{Column: "t", Value: "r1"}}}) == 1
		verifAssert(ok, "C05: an index written while a row was being added counts two rows but its schema or bitmaps do not describe both")
	}
	idx.Close()
	verifReach("end")
}

// HarnessC05CommitFault: the big writer's temporary database suffers a write fault exactly
// when the writer commits its 1000-row batch (the commit fails and is rolled back). Rows
// whose AddRow returned without error are acknowledged: if Flush then reports success, every
// acknowledged row is in the index, exactly once, under its id; otherwise Flush must fail.
func HarnessC05CommitFault() {
	out := verifTempPath("c05cf.updog")
	tmp := verifTempPath("c05cf.tmp")
	bw, closeDBs := verifBigWriter(out, tmp)
	var acked []int
	for i := 0; i <= 1000; i++ {
		if i == 1000 {
			verifBoltWriteFault(tmp, true)
		}
		id, err := bw.AddRow(map[string]string{"t": verifTag4(i), "a": []string{"x", "y"}[i%2]})
		if i == 1000 {
			verifBoltWriteFault(tmp, false)
		}
		if err == nil {
			verifAssert(id == uint32(i), "C05: AddRow must assign row ids 0,1,2,... in call order")
			acked = append(acked, i)
		}
	}
	ferr := bw.Flush()
	closeDBs()
	if ferr != nil {
		verifReach("end") // the writer failed loudly: nothing wrong was produced
		return
	}
	idx, err := OpenIndex(out)
	verifAssert(err == nil, "C05: Flush reported success after a write fault but the file cannot be opened")
	if err != nil {
		return
	}
	for _, i := range []int{0, 1, 500, 998, 999} {
		verifAssert(verifCount(idx, &ExprEqual{Column: "t", Value: verifTag4(i)}) == 1, "C05: Flush reported success although rows whose AddRow had succeeded were lost in a failed batch commit")
	}
	verifAssert(verifCount(idx, &ExprNot{Expr: &ExprEqual{Column: "a", Value: "nope"}}) >= uint64(len(acked)), "C05: Flush reported success with fewer rows than were acknowledged")
	idx.Close()
	verifReach("end")
}

// HarnessC05Bytes: column names and values are byte strings, not text: names and values that
// are not valid UTF-8 (Latin-1 data), that differ only in such bytes, that contain control
// bytes, and the empty column name, come back from the flushed index byte for byte — in the
// schema, as query operands and as group values — for each writer.
func HarnessC05Bytes() {
	out := verifTempPath("c05b.updog")
	col := "c\xe9"                                                    // Latin-1 e-acute
	vals := []string{"", "K\xf6ln", "K\xfcln", "ok\xff", "tab\there"} // the empty value is the first one its column sees
	var w verifWriter
	closeDBs := func() {}
	if verifBool("big-writer") {
		bw, c := verifBigWriter(out, verifTempPath("c05b.tmp"))
		w, closeDBs = bw, c
	} else {
		w = NewIndexWriter(out)
	}
	for i, v := range vals {
		id, err := w.AddRow(map[string]string{col: v, "": "under the empty name", "t": verifTag(i)})
		verifAssert(err == nil && id == uint32(i), "C05: AddRow must assign row ids 0,1,2,... in call order")
	}
	// a writer may refuse a row (a column name with a NUL byte is ambiguous in the key
	// derivation): a refused row is no row — it takes no id and leaves nothing behind
	acked := len(vals)
	if verifBool("row-with-NUL-in-a-column-name") {
		id, err := w.AddRow(map[string]string{"x\x00y": "v", "only-in-the-refused-row": "v", "t": verifTag(len(vals))})
		if err == nil {
			verifAssert(id == uint32(len(vals)), "C05: AddRow must assign row ids 0,1,2,... in call order")
			acked++
		}
		id, err = w.AddRow(map[string]string{col: "last", "t": verifTag(len(vals) + 1)})
		verifAssert(err == nil && id == uint32(acked), "C05: after a refused row the next row must get the next id")
		acked++
	}
	verifAssert(w.Flush() == nil, "C05: Flush failed for names or values that are not valid UTF-8")
	closeDBs()
	idx, err := OpenIndex(out)
	verifAssert(err == nil, "C05: an index holding names or values that are not valid UTF-8 cannot be opened")
	if err != nil {
		return
	}
	sch := idx.GetSchema()
	// columns sorted byte-wise: "", "c\xe9", "t"
	verifAssert(verifCount(idx, &ExprNot{Expr: &ExprEqual{Column: "t", Value: "nope"}}) == uint64(acked), "C05: the index does not hold exactly the rows whose AddRow succeeded")
	if acked == len(vals)+1 {
		// the row with the NUL name was refused: nothing of it may be in the index
		_, e := idx.Execute(&Query{Expr: &ExprEqual{Column: "only-in-the-refused-row", Value: "v"}})
		verifAssert(e != nil, "C05: a column that only a refused row carried is in the index")
	}
	if acked != len(vals) {
		idx.Close()
		verifReach("end")
		return
	}
	ok := len(sch.Columns) == 3 && sch.Columns[0].Name == "" && sch.Columns[1].Name == col && sch.Columns[2].Name == "t"
	if ok {
		want := []string{"", "K\xf6ln", "K\xfcln", "ok\xff", "tab\there"} // byte-wise ascending
		ok = len(sch.Columns[1].Values) == len(want)
		for i := range want {
			ok = ok && sch.Columns[1].Values[i].Value == want[i]
		}
		ok = ok && len(sch.Columns[0].Values) == 1 && sch.Columns[0].Values[0].Value == "under the empty name"
	}
	verifAssert(ok, "C05: the schema does not hold the added column names and values byte for byte")
	for i, v := range vals {
		both := &ExprAnd{Exprs: []Expression{&ExprEqual{Column: col, Value: v}, &ExprEqual{Column: "t", Value: verifTag(i)}}}
		verifAssert(verifCount(idx, &ExprEqual{Column: col, Value: v}) == 1 && verifCount(idx, both) == 1, "C05: a value that is not valid UTF-8 does not hold for exactly the row it was added to")
	}
	verifAssert(verifCount(idx, &ExprEqual{Column: "", Value: "under the empty name"}) == uint64(len(vals)), "C05: the column with the empty name does not hold for the rows it was added to")
	res, err := idx.Execute(&Query{Expr: &ExprNot{Expr: &ExprEqual{Column: "t", Value: "nope"}}, GroupBy: []string{col}})
	verifAssert(err == nil && res != nil && len(res.Groups) == len(vals), "C05: grouping by a column with values that are not valid UTF-8 does not yield one group per value")
	idx.Close()
	verifReach("end")
}
