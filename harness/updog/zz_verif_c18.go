package updog

import (
	"sync"

	"go.etcd.io/bbolt"
)

// C18 — concurrent AddRow calls lose, duplicate and mix nothing.
// C04 — concurrent queries on one index are race-free and return sequential answers.

func init() {
	verifHarnesses["HarnessC18AddRow"] = HarnessC18AddRow
	verifHarnesses["HarnessC18Boundary"] = HarnessC18Boundary
	verifHarnesses["HarnessC18Block"] = HarnessC18Block
	verifHarnesses["HarnessC05Boundary"] = HarnessC05Boundary
	verifHarnesses["HarnessC04Cache"] = HarnessC04Cache
	verifHarnesses["HarnessC04Queries"] = HarnessC04Queries
	verifHarnesses["HarnessC01Parallel"] = HarnessC01Parallel
}

func verifCount(idx *Index, e Expression) uint64 {
	res, err := idx.Execute(&Query{Expr: e})
	if err != nil {
		return ^uint64(0)
	}
	return res.Count
}

// HarnessC18AddRow: 2 goroutines x 1..2 rows on either writer; every interleaving at
// synchronisation points (schedule mode) plus the lockset discipline over all accesses.
func HarnessC18AddRow() {
	big := verifBool("big-writer")
	k := 1 + verifChoice("rows-per-goroutine", 2+verifTier())
	out := verifTempPath("c18.updog")
	var w verifWriter
	var db, tempDB *bbolt.DB
	if big {
		var err error
		db, err = bbolt.Open(out, 0644, nil)
		if err != nil {
			panic(err)
		}
		tempDB, err = bbolt.Open(verifTempPath("c18.tmp"), 0600, nil)
		if err != nil {
			panic(err)
		}
		bw, err := NewBigIndexWriter(db, tempDB)
		if err != nil {
			panic(err)
		}
		w = bw
	} else {
		w = NewIndexWriter(out)
	}
	const G = 2
	ids := make([][]uint32, G)
	for g := range ids {
		ids[g] = make([]uint32, k)
	}
	tag := func(g, i int) string { return string([]byte{'g', byte('0' + g), byte('0' + i)}) }
	val := func(g, i int) string { return []string{"x", "y"}[(g+i)%2] }
	// the second goroutine's rows may be rows without any value (they only take a row id)
	emptyRows := verifBool("second-goroutine-adds-empty-rows")
	rowOf := func(g, i int) map[string]string {
		if emptyRows && g == 1 {
			return map[string]string{}
		}
		return map[string]string{"t": tag(g, i), "a": val(g, i)}
	}
	var wg sync.WaitGroup
	verifPreemptions(2 + verifTier())
	verifSchedule(true)
	verifLockset(true)
	for g := 0; g < G; g++ {
		wg.Add(1)
		go func(g int) {
			defer wg.Done()
			for i := 0; i < k; i++ {
				id, err := w.AddRow(rowOf(g, i))
				if err != nil {
					panic(err)
				}
				ids[g][i] = id
			}
		}(g)
	}
	wg.Wait()
	verifLockset(false)
	verifSchedule(false)
	verifRaceFree("C18: concurrent AddRow calls access writer state without a common lock")
	n := G * k
	seen := make([]bool, n)
	for g := 0; g < G; g++ {
		for i := 0; i < k; i++ {
			id := ids[g][i]
			verifAssert(int(id) < n && !seen[id], "C18: returned row ids must be exactly 0..n-1 without duplicates")
			if int(id) < n {
				seen[id] = true
			}
		}
	}
	verifAssert(w.Flush() == nil, "C18: Flush failed")
	if big {
		tempDB.Close()
		db.Close()
	}
	idx, err := OpenIndex(out)
	verifAssert(err == nil, "C18: the flushed index cannot be opened")
	if err != nil {
		return
	}
	for g := 0; g < G; g++ {
		if emptyRows && g == 1 {
			continue
		}
		for i := 0; i < k; i++ {
			t := &ExprEqual{Column: "t", Value: tag(g, i)}
			verifAssert(verifCount(idx, t) == 1, "C18: every added row appears exactly once")
			mine := &ExprEqual{Column: "a", Value: val(g, i)}
			other := &ExprEqual{Column: "a", Value: val(g, i+1)}
			verifAssert(verifCount(idx, &ExprAnd{Exprs: []Expression{t, mine}}) == 1, "C18: a row's values must be on one single row")
			verifAssert(verifCount(idx, &ExprAnd{Exprs: []Expression{t, other}}) == 0, "C18: rows were mixed")
		}
	}
	verifAssert(verifCount(idx, &ExprNot{Expr: &ExprEqual{Column: "a", Value: "nope"}}) == uint64(n), "C18: the index must hold exactly one row per AddRow call")
	// the schema is the one a sequential insertion produces: columns a and t, every value added
	wantA := []string{"x", "y"}
	if emptyRows && k == 1 {
		wantA = []string{"x"} // only row (0,0) carries a value
	}
	var wantT []string
	for g := 0; g < G; g++ {
		if emptyRows && g == 1 {
			continue
		}
		for i := 0; i < k; i++ {
			wantT = append(wantT, tag(g, i)) // g00 g01 g10 g11: ascending
		}
	}
	sch := idx.GetSchema()
	ok := len(sch.Columns) == 2 && sch.Columns[0].Name == "a" && sch.Columns[1].Name == "t" &&
		len(sch.Columns[0].Values) == len(wantA) && len(sch.Columns[1].Values) == len(wantT)
	if ok {
		for i, v := range wantA {
			ok = ok && sch.Columns[0].Values[i].Value == v
		}
		for i, v := range wantT {
			ok = ok && sch.Columns[1].Values[i].Value == v
		}
	}
	verifAssert(ok, "C18: the schema of the flushed index is not the one a sequential insertion of the same rows produces")
	// and grouping by the tag column finds every row
	res, err := idx.Execute(&Query{Expr: &ExprNot{Expr: &ExprEqual{Column: "a", Value: "nope"}}, GroupBy: []string{"t"}})
	verifAssert(err == nil && res != nil && len(res.Groups) == len(wantT) && res.Count == uint64(n), "C18: grouping the flushed index by the tag column must yield one group per added row that has a tag, and count every row")
	idx.Close()
	verifReach("end")
}

// HarnessC04Cache: the built-in LRU cache used by two goroutines at once.
func HarnessC04Cache() {
	c := NewLRUCache(verifU64("cap"))
	b1 := verifSizedBitmap("size")
	b2 := verifSizedBitmap("size")
	var wg sync.WaitGroup
	verifSchedule(true)
	verifLockset(true)
	for g := 0; g < 2; g++ {
		wg.Add(1)
		go func(g int) {
			defer wg.Done()
			key := uint64(10 + g)
			bm := b1
			if g == 1 {
				bm = b2
			}
			c.Put(key, bm)
			got, ok := c.Get(key)
			if ok {
				verifAssert(got == bm, "C04: a hit returned a bitmap stored under another key")
			}
			c.Get(uint64(10 + 1 - g))
		}(g)
	}
	wg.Wait()
	verifLockset(false)
	verifSchedule(false)
	verifRaceFree("C04: the LRU cache is used concurrently without a common lock")
	verifReach("end")
}

// HarnessC04Queries: two goroutines execute queries and read the schema on one index with an
// LRU cache (as the server does); results must be the sequential ones.
func HarnessC04Queries() {
	d := verifNewDataN("c04.updog", []string{"a", "b"}, [][]string{{"a0", "a1"}, {"b0"}}, 64)
	d.build()
	var cache Cache
	switch verifChoice("cache", 3) {
	case 1:
		cache = NewLRUCache(^uint64(0))
	case 2:
		cache = NewLRUCache(0) // every entry is evicted at once: eviction in flight
	}
	idx := d.open(verifBool("preload"), cache)
	// query pairs with overlapping sub-expressions (cache hits, misses and puts in flight)
	a0, _ := d.set("a", "a0")
	a1, _ := d.set("a", "a1")
	b0, _ := d.set("b", "b0")
	mask := verifMask(d.n)
	eq := func(c, v string) Expression { return &ExprEqual{Column: c, Value: v} }
	pairs := [][2]verifExpr{
		{{e: &ExprOr{Exprs: []Expression{eq("a", "a0"), eq("a", "a1")}}, den: a0 | a1}, {e: &ExprOr{Exprs: []Expression{eq("a", "a0"), eq("a", "a1")}}, den: a0 | a1}},
		{{e: &ExprNot{Expr: eq("a", "a0")}, den: ^a0 & mask}, {e: &ExprAnd{Exprs: []Expression{eq("a", "a0"), eq("b", "b0")}}, den: a0 & b0}},
		{{e: &ExprAnd{Exprs: []Expression{eq("a", "a1"), &ExprNot{Expr: eq("b", "b0")}}}, den: a1 & (^b0 & mask)}, {e: &ExprNot{Expr: eq("b", "b0")}, den: ^b0 & mask}},
		// a NOT over single-operand operators next to a plain read of the same stored value
		{{e: &ExprNot{Expr: &ExprAnd{Exprs: []Expression{eq("a", "a0")}}}, den: ^a0 & mask}, {e: &ExprOr{Exprs: []Expression{eq("a", "a0")}}, den: a0}},
	}
	// two queries built around one shared sub-expression (a filter object reused by the
	// application), its operands in either order: evaluation only reads the tree
	for _, ops := range [][]Expression{{eq("a", "a1"), eq("b", "b0")}, {eq("b", "b0"), eq("a", "a1")}} {
		// only the order in which the operands' keys descend (the one a canonicalisation by
		// key would change)
		if ops[0].cacheKey() < ops[1].cacheKey() {
			continue
		}
		shared := &ExprAnd{Exprs: ops}
		pairs = append(pairs, [2]verifExpr{{e: &ExprNot{Expr: shared}, den: ^(a1 & b0) & mask}, {e: &ExprOr{Exprs: []Expression{shared, eq("a", "a0")}}, den: (a1 & b0) | a0}})
	}
	pr := pairs[verifChoice("pair", len(pairs))]
	x1, x2 := pr[0], pr[1]
	// with or without GROUP BY in both goroutines (first grouped use of a column in flight)
	var gb []string
	if verifBool("groupby") {
		gb = []string{"a"}
	}
	var wg sync.WaitGroup
	var c1, c2 uint64
	var e1, e2 error
	verifPreemptions(1 + verifTier())
	verifSchedule(true)
	verifLockset(true)
	wg.Add(2)
	go func() {
		defer wg.Done()
		r, err := idx.Execute(&Query{Expr: x1.e, GroupBy: gb})
		e1 = err
		if err == nil {
			c1 = r.Count
		}
		idx.GetSchema()
	}()
	go func() {
		defer wg.Done()
		r, err := idx.Execute(&Query{Expr: x2.e, GroupBy: gb})
		e2 = err
		if err == nil {
			c2 = r.Count
		}
	}()
	wg.Wait()
	verifLockset(false)
	verifSchedule(false)
	verifRaceFree("C04: concurrent queries access shared state without a common lock")
	verifAssert(e1 == nil && c1 == verifCard(x1.den), "C04: a concurrent query did not return what it returns when run alone")
	verifAssert(e2 == nil && c2 == verifCard(x2.den), "C04: a concurrent query did not return what it returns when run alone")
	idx.Close()
	verifReach("end")
}

// HarnessC01Parallel: two independent indexes (separate files, separate objects), each queried
// by its own goroutine at the same time, on demand or preloaded: no data race between them and
// each count is the cardinality of the denotation on its own data.
func HarnessC01Parallel() {
	d1 := verifNewDataN("c01p1.updog", []string{"a", "b"}, [][]string{{"a0", "a1"}, {"b0"}}, 64)
	d1.build()
	d2 := &verifData{path: verifTempPath("c01p2.updog"), n: 6, cols: []string{"a", "b"},
		vals: [][]string{{"a0", "a1"}, {"b0"}}, sets: [][]uint64{{0x05, 0x32}, {0x0f}}}
	d2.build()
	idx1 := d1.open(verifBool("preload1"), nil)
	idx2 := d2.open(verifBool("preload2"), nil)
	eq := func(c, v string) Expression { return &ExprEqual{Column: c, Value: v} }
	a0, _ := d1.set("a", "a0")
	b0, _ := d1.set("b", "b0")
	var wg sync.WaitGroup
	var c1, c2 uint64
	var e1, e2 error
	verifPreemptions(verifTier())
	verifSchedule(true)
	verifLockset(true)
	wg.Add(2)
	go func() {
		defer wg.Done()
		r, err := idx1.Execute(&Query{Expr: &ExprAnd{Exprs: []Expression{eq("a", "a0"), eq("b", "b0")}}})
		e1 = err
		if err == nil {
			c1 = r.Count
		}
	}()
	go func() {
		defer wg.Done()
		r, err := idx2.Execute(&Query{Expr: &ExprOr{Exprs: []Expression{eq("a", "a1"), eq("b", "b0")}}})
		e2 = err
		if err == nil {
			c2 = r.Count
		}
	}()
	wg.Wait()
	verifLockset(false)
	verifSchedule(false)
	verifRaceFree("C01: two independent indexes queried by two goroutines share state")
	verifAssert(e1 == nil && c1 == verifCard(a0&b0), "C01: a query on one index returned a wrong count while another, independent index was queried")
	verifAssert(e2 == nil && c2 == 6, "C01: a query on one index returned a wrong count while another, independent index was queried")
	idx1.Close()
	idx2.Close()
	verifReach("end")
}

// verifBigWriter opens the two databases of a big writer.
func verifBigWriter(out, tmp string) (*BigIndexWriter, func()) {
	db, err := bbolt.Open(out, 0644, nil)
	if err != nil {
		panic(err)
	}
	tempDB, err := bbolt.Open(tmp, 0600, nil)
	if err != nil {
		panic(err)
	}
	bw, err := NewBigIndexWriter(db, tempDB)
	if err != nil {
		panic(err)
	}
	return bw, func() { tempDB.Close(); db.Close() }
}

func verifTag4(i int) string {
	return string([]byte{'t', byte('0' + i/1000), byte('0' + i/100%10), byte('0' + i/10%10), byte('0' + i%10)})
}

// verifCheckBoundaryRows probes the rows around the big writer's 1000-row commit.
func verifCheckBoundaryRows(tag string, idx *Index, n int, tagOf func(id int) string) {
	verifAssert(verifCount(idx, &ExprNot{Expr: &ExprEqual{Column: "a", Value: "nope"}}) == uint64(n), tag+": the index must hold exactly one row per AddRow call")
	for _, id := range []int{0, 1, 998, 999, 1000, 1001, n - 1} {
		if id >= n {
			continue
		}
		t := &ExprEqual{Column: "t", Value: tagOf(id)}
		verifAssert(verifCount(idx, t) == 1, tag+": a row added around the 1000-row commit is missing or duplicated")
		mine := &ExprEqual{Column: "a", Value: []string{"x", "y"}[id%2]}
		verifAssert(verifCount(idx, &ExprAnd{Exprs: []Expression{t, mine}}) == 1, tag+": a row's values are not on one single row")
	}
	verifAssert(verifCount(idx, &ExprEqual{Column: "a", Value: "x"}) == uint64((n+1)/2), tag+": rows were lost or mixed around the 1000-row commit")
}

// HarnessC05Boundary: the big writer across its 1000-row temp-database commit, sequentially
// (1002 rows; needs the multi-word bitmap model).
func HarnessC05Boundary() {
	out := verifTempPath("c05b.updog")
	bw, closeDBs := verifBigWriter(out, verifTempPath("c05b.tmp"))
	k := 1
	if verifTier() > 0 {
		k += verifChoice("thousands", 2)
	}
	c := verifChoice("around-batch", 5)
	n := 1000*k - 1 + c // 999..1002 (thorough: also 1999..2002)
	if c == 4 {
		n = 2001 // 4002 (column,value) pairs: batching by pairs instead of rows crosses its bound here
	}
	for i := 0; i < n; i++ {
		id, err := bw.AddRow(map[string]string{"t": verifTag4(i), "a": []string{"x", "y"}[i%2]})
		if err != nil || id != uint32(i) {
			verifAssert(false, "C05: AddRow must assign row ids 0,1,2,... in call order (across the 1000-row commit)")
			return
		}
	}
	verifAssert(bw.Flush() == nil, "C05: Flush of the big writer failed")
	closeDBs()
	idx, err := OpenIndex(out)
	verifAssert(err == nil, "C05: the flushed file cannot be opened")
	if err != nil {
		return
	}
	verifCheckBoundaryRows("C05 big writer, 999..1002 rows", idx, n, verifTag4)
	idx.Close()
	verifReach("end")
}

// HarnessC18Block: row ids cross 65535/65536, where a roaring bitmap starts its second
// container (work a writer does "once a block of rows is complete" happens here). One
// goroutine adds 65538 rows to the in-memory writer while a second one adds two more; race
// detection over all accesses, ids exactly 0..n-1, and the flushed index holds every row.
func HarnessC18Block() {
	out := verifTempPath("c18k.updog")
	w := NewIndexWriter(out)
	n1, n2 := 65538, 2
	if !verifSymbolic() {
		n2 = 20000
	}
	ids := make([]uint32, n1+n2)
	var wg sync.WaitGroup
	verifPreemptions(0)
	verifSchedule(true)
	verifLockset(true)
	wg.Add(2)
	go func() {
		defer wg.Done()
		for i := 0; i < n1; i++ {
			id, err := w.AddRow(map[string]string{"a": "x"})
			if err != nil {
				panic(err)
			}
			ids[i] = id
		}
	}()
	go func() {
		defer wg.Done()
		for i := n1; i < n1+n2; i++ {
			id, err := w.AddRow(map[string]string{"a": "x"})
			if err != nil {
				panic(err)
			}
			ids[i] = id
		}
	}()
	wg.Wait()
	verifLockset(false)
	verifSchedule(false)
	verifRaceFree("C18: concurrent AddRow calls while row ids cross a 65536-row block")
	seen := make([]bool, n1+n2)
	for _, id := range ids {
		verifAssert(int(id) < n1+n2 && !seen[id], "C18: returned row ids must be exactly 0..n-1 without duplicates")
		if int(id) < n1+n2 {
			seen[id] = true
		}
	}
	verifAssert(w.Flush() == nil, "C18: Flush failed")
	idx, err := OpenIndex(out)
	verifAssert(err == nil, "C18: the flushed index cannot be opened")
	if err != nil {
		return
	}
	verifAssert(verifCount(idx, &ExprEqual{Column: "a", Value: "x"}) == uint64(n1+n2), "C18: the index must hold exactly one row per AddRow call")
	idx.Close()
	verifReach("end")
}

// HarnessC18Boundary: one goroutine adds 1001 rows (crossing the commit that replaces the
// temp transaction) while a second one adds two more; race detection over all accesses; no
// forced preemptions (the happens-before analysis does not need the accesses to be adjacent).
func HarnessC18Boundary() {
	out := verifTempPath("c18b.updog")
	bw, closeDBs := verifBigWriter(out, verifTempPath("c18b.tmp"))
	// the engine explores the second goroutine's two rows at every position relative to the
	// first one's commit; natively both goroutines have to be busy at the same time for a race
	// to show, so the second one adds as many rows as the first
	n1, n2 := 1001, 2
	if !verifSymbolic() {
		n2 = 1001
	}
	ids := make([]uint32, n1+n2)
	var wg sync.WaitGroup
	verifPreemptions(0)
	verifSchedule(true)
	verifLockset(true)
	wg.Add(2)
	go func() {
		defer wg.Done()
		for i := 0; i < n1; i++ {
			id, err := bw.AddRow(map[string]string{"t": verifTag4(i), "a": []string{"x", "y"}[i%2]})
			if err != nil {
				panic(err)
			}
			ids[i] = id
		}
	}()
	go func() {
		defer wg.Done()
		for i := n1; i < n1+n2; i++ {
			id, err := bw.AddRow(map[string]string{"t": verifTag4(i), "a": []string{"x", "y"}[i%2]})
			if err != nil {
				panic(err)
			}
			ids[i] = id
		}
	}()
	wg.Wait()
	verifLockset(false)
	verifSchedule(false)
	verifRaceFree("C18: concurrent AddRow calls on the big writer around its 1000-row commit")
	seen := make([]bool, n1+n2)
	for _, id := range ids {
		verifAssert(int(id) < n1+n2 && !seen[id], "C18: returned row ids must be exactly 0..n-1 without duplicates")
		if int(id) < n1+n2 {
			seen[id] = true
		}
	}
	verifAssert(bw.Flush() == nil, "C18: Flush failed")
	closeDBs()
	idx, err := OpenIndex(out)
	verifAssert(err == nil, "C18: the flushed index cannot be opened")
	if err != nil {
		return
	}
	for _, i := range []int{0, 999, 1000, 1001, 1002} {
		verifAssert(verifCount(idx, &ExprEqual{Column: "t", Value: verifTag4(i)}) == 1, "C18: every added row appears exactly once")
	}
	verifAssert(verifCount(idx, &ExprNot{Expr: &ExprEqual{Column: "a", Value: "nope"}}) == uint64(n1+n2), "C18: the index must hold exactly one row per AddRow call")
	idx.Close()
	verifReach("end")
}
