package driver

import (
	sqldriver "database/sql/driver"
	"strings"
)

// C11 — placeholder binding is exact and prepared statements are reusable.

func init() {
	verifHarnesses["HarnessC11Bind"] = HarnessC11Bind
}

type c11Template struct {
	text  string
	maxPh int
	// match evaluates the template on a row for the given arguments (reference)
	match func(r drvRow, a []string) bool
}

var c11Templates = []c11Template{
	{`a = $1`, 1, func(r drvRow, a []string) bool { return r["a"] == a[0] }},
	{`a = $1 & b = $2`, 2, func(r drvRow, a []string) bool { return r["a"] == a[0] && has(r, "b", a[1]) }},
	{`a = $2 | b = $1`, 2, func(r drvRow, a []string) bool { return r["a"] == a[1] || has(r, "b", a[0]) }},
	{`a = $1 | a = $1`, 1, func(r drvRow, a []string) bool { return r["a"] == a[0] }},
	{`a = $3`, 3, func(r drvRow, a []string) bool { return r["a"] == a[2] }},
	{`a = "x" & ^ b = $1`, 1, func(r drvRow, a []string) bool { return r["a"] == "x" && !has(r, "b", a[0]) }},
	{`a = "y"`, 0, func(r drvRow, a []string) bool { return r["a"] == "y" }},
	{`a = $1 | b = $1`, 1, func(r drvRow, a []string) bool { return has(r, "a", a[0]) || has(r, "b", a[0]) }},
	{`^ a = $2 & b = $2 & a = $1`, 2, func(r drvRow, a []string) bool { return !has(r, "a", a[1]) && has(r, "b", a[1]) && has(r, "a", a[0]) }},
	// placeholders far down: under 70 negations, and under 70 alternating levels of | and &
	// (every occurrence is counted and bound, however deep it sits)
	{strings.Repeat("^ ", 70) + `a = $1`, 1, func(r drvRow, a []string) bool { return r["a"] == a[0] }},
	{strings.Repeat(`a = "zz" | ( a = "x" & ( `, 35) + `b = $2` + strings.Repeat(` ) )`, 35), 2, func(r drvRow, a []string) bool { return r["a"] == "x" && has(r, "b", a[1]) }},
}

func has(r drvRow, c, v string) bool {
	x, ok := r[c]
	return ok && x == v
}

// arguments are symbolic strings of 1..2 bytes (thorough: 1..3) of any byte values: the solver
// decides which stored value, if any, each one equals
func c11PickArgs(n int) []string {
	var out []string
	for i := 0; i < n; i++ {
		l := 1 + verifChoice("arglen", 2+verifTier())
		out = append(out, verifString("arg", l))
	}
	return out
}

func HarnessC11Bind() {
	// values shared between columns and an empty value, so that an unbound or misbound
	// occurrence of a placeholder changes the answer
	rows := []drvRow{{"a": "x", "b": "p"}, {"a": "y", "b": "q"}, {"a": "x"}, {"a": "yy", "b": "p"}, {"a": "", "b": "x"}, {"a": "p", "b": ""}}
	path := verifTempPath("c11.updog")
	drvBuild(path, rows)
	d := newUpdogDriver()
	c, err := drvOpen(d, "file:"+path)
	if err != nil {
		panic(err)
	}
	// placeholder numbers outside 1..2147483647 are no placeholders: such a text must be
	// rejected, whatever arguments come with it (never run with a wrapped-around number)
	if verifBool("placeholder-out-of-range") {
		text := []string{`a = $4294967297`, `a = $2147483648`, `a = $0`, `a = $18446744073709551617`}[verifChoice("which", 4)]
		_, perr := c.Prepare(text)
		verifAssert(perr != nil, "C11: a placeholder number outside 1..2147483647 must be rejected")
		_, qerr := c.QueryContext(drvCtx, text, []sqldriver.NamedValue{{Ordinal: 1, Value: "x"}})
		verifAssert(qerr != nil, "C11: a query with a placeholder number outside 1..2147483647 was executed")
		c.Close()
		verifReach("end")
		return
	}
	t := c11Templates[verifChoice("template", len(c11Templates))]
	if verifBool("direct") {
		// direct Query path: the argument count is whatever the caller passes
		m := verifChoice("nargs", 4)
		args := c11PickArgs(m)
		var named []sqldriver.NamedValue
		for i, a := range args {
			named = append(named, sqldriver.NamedValue{Ordinal: i + 1, Value: a})
		}
		r, err := c.QueryContext(drvCtx, t.text, named)
		if m < t.maxPh {
			verifAssert(err != nil, "C11: fewer arguments than the highest placeholder must yield an error")
		} else {
			verifAssert(err == nil, "C11: a query with enough arguments failed")
			if err == nil {
				q := drvQuery{match: func(r drvRow) bool { return t.match(r, args) }}
				drvCheckRows("C11 direct query", q, rows, r)
			}
		}
	} else {
		// Prepare path: database/sql passes exactly NumInput() arguments
		st, err := c.Prepare(t.text)
		verifAssert(err == nil, "C11: Prepare failed")
		if err != nil {
			return
		}
		verifAssert(st.NumInput() == t.maxPh, "C11: NumInput must be the highest placeholder number")
		for round := 0; round < 2; round++ {
			args := c11PickArgs(t.maxPh)
			var vals []sqldriver.Value
			for _, a := range args {
				vals = append(vals, a)
			}
			r, err := st.Query(vals)
			verifAssert(err == nil, "C11: executing a prepared statement failed")
			if err != nil {
				return
			}
			q := drvQuery{match: func(r drvRow) bool { return t.match(r, args) }}
			drvCheckRows("C11 prepared statement", q, rows, r)
		}
		// too few arguments (a caller bypassing database/sql's count check)
		if t.maxPh > 0 {
			_, err := st.Query(nil)
			verifAssert(err != nil, "C11: fewer arguments than the highest placeholder must yield an error")
		}
	}
	c.Close()
	verifReach("end")
}
