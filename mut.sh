#!/bin/sh
# usage: mut.sh <file under /repo> <sed expr> <pkg> <harness> [extra vf args]
# applies a one-off mutation, runs one harness, reverts. Development aid only.
f=$1; expr=$2; pkg=$3; h=$4; shift 4
cd /repo && cp "$f" /tmp/mut_backup && sed -i "$expr" "$f" && git diff --stat | tail -1
/verif/bin/vf run --pkg "$pkg" --fn "$h" "$@" 2>&1 | cut -c1-300 | grep -v "^  reach\|^  note\|^loaded" | head -12
cp /tmp/mut_backup /repo/"$f"; cd /repo && git status --short | head -3
