// Command vf drives the symbolic engine: it loads /repo (plus harness overlays and
// dependency models), explores harness functions, replays counterexamples against the real
// build, and writes evidence.
package main

import (
	"encoding/json"
	"flag"
	"fmt"
	"os"
	"path/filepath"
	"runtime"
	"runtime/pprof"
	"sort"
	"strings"
	"time"

	"verif/engine/sym"
)

var (
	verifDir = envOr("VERIF_DIR", "/verif")
	repoDir  = envOr("VERIF_REPO", "/repo")
)

func envOr(k, d string) string {
	if v := os.Getenv(k); v != "" {
		return v
	}
	return d
}

func main() {
	if len(os.Args) < 2 {
		usage()
	}
	switch os.Args[1] {
	case "check":
		os.Exit(cmdCheck(os.Args[2:]))
	case "run":
		os.Exit(cmdRun(os.Args[2:]))
	case "replay":
		os.Exit(cmdReplay(os.Args[2:]))
	case "list":
		for _, c := range checks {
			fmt.Printf("%s\n", c.ID)
			for _, h := range c.Harnesses {
				fmt.Printf("   %s %s\n", h.Pkg, h.Fn)
			}
		}
	default:
		usage()
	}
}

func usage() {
	fmt.Fprintln(os.Stderr, "usage: vf check <ID> [--tier quick|thorough] | vf run --pkg <dir> --fn <Harness> | vf replay <cex.json> | vf list")
	os.Exit(2)
}

// pkgDirs maps harness directory names to repo package directories / import paths.
type pkgInfo struct {
	HarnessDir string // under /verif/harness
	RepoSub    string // sub directory of /repo
	PkgName    string
	Models     bool // needs the roaring/bbolt runtime helpers
}

var pkgs = map[string]pkgInfo{
	"updog":       {"updog", "", "updog", true},
	"queryparser": {"queryparser", "internal/queryparser", "queryparser", false},
	"driver":      {"driver", "driver", "driver", true},
	"convert":     {"convert", "internal/convert", "convert", true},
	"cmdupdog":    {"cmdupdog", "cmd/updog", "main", true},
}

func importPath(p *sym.Program, pi pkgInfo) string {
	if pi.RepoSub == "" {
		return p.RepoMod
	}
	return p.RepoMod + "/" + pi.RepoSub
}

// harnessOverlay builds the virtual-path -> real-file map for the given harness packages.
// Runtime templates are instantiated into a scratch directory.
func harnessOverlay(scratch string, which []string) (map[string]string, error) {
	out := map[string]string{}
	for _, name := range which {
		pi, ok := pkgs[name]
		if !ok {
			return nil, fmt.Errorf("unknown harness package %q", name)
		}
		dir := filepath.Join(verifDir, "harness", pi.HarnessDir)
		ents, err := os.ReadDir(dir)
		if err != nil {
			return nil, err
		}
		for _, e := range ents {
			if strings.HasSuffix(e.Name(), ".go") && !strings.HasSuffix(e.Name(), "_test.go") {
				out[filepath.Join(pi.RepoSub, e.Name())] = filepath.Join(dir, e.Name())
			}
		}
		tmpls := []string{"zz_verif_rt.go"}
		if pi.Models {
			tmpls = append(tmpls, "zz_verif_rt_models.go")
		}
		for _, t := range tmpls {
			b, err := os.ReadFile(filepath.Join(verifDir, "harness", "rt", t+".tmpl"))
			if err != nil {
				return nil, err
			}
			s := strings.Replace(string(b), "package PKGNAME", "package "+pi.PkgName, 1)
			real := filepath.Join(scratch, name+"_"+t)
			if err := os.WriteFile(real, []byte(s), 0644); err != nil {
				return nil, err
			}
			out[filepath.Join(pi.RepoSub, t)] = real
		}
	}
	return out, nil
}

func loadProgram(scratch string, which []string) (*sym.Program, map[string]string, error) {
	ov, err := harnessOverlay(scratch, which)
	if err != nil {
		return nil, nil, err
	}
	var patterns []string
	seen := map[string]bool{}
	for _, name := range which {
		sub := pkgs[name].RepoSub
		pat := "./" + sub
		if sub == "" {
			pat = "."
		}
		if !seen[pat] {
			patterns = append(patterns, pat)
			seen[pat] = true
		}
	}
	p, err := sym.Load(sym.LoadOptions{
		RepoDir:      repoDir,
		Patterns:     patterns,
		HarnessFiles: ov,
		Models: []sym.ModelSpec{
			{Module: "github.com/RoaringBitmap/roaring", PkgName: "roaring", FileName: "roaring.go", Source: filepath.Join(verifDir, "models/roaring/roaring.go")},
			{Module: "go.etcd.io/bbolt", PkgName: "bbolt", FileName: "db.go", Source: filepath.Join(verifDir, "models/bbolt/db.go")},
		},
	})
	return p, ov, err
}

func cmdRun(args []string) int {
	fs := flag.NewFlagSet("run", flag.ExitOnError)
	pkg := fs.String("pkg", "updog", "harness package (updog, queryparser, driver, convert, cmdupdog)")
	fn := fs.String("fn", "", "harness function")
	tier := fs.Int("tier", 0, "tier (0 quick, 1 thorough)")
	workers := fs.Int("workers", runtime.NumCPU(), "workers")
	maxPaths := fs.Int("max-paths", 0, "path limit")
	secs := fs.Int("secs", 0, "time limit")
	trace := fs.Bool("trace", false, "collect verifTrace output")
	replay := fs.Bool("replay", true, "replay violations natively")
	pathSecs := fs.Int("path-secs", 300, "per-path wall time limit")
	prof := fs.String("cpuprofile", "", "write CPU profile")
	fs.Parse(args)
	scratch, _ := os.MkdirTemp("", "vf")
	defer os.RemoveAll(scratch)
	t0 := time.Now()
	p, ov, err := loadProgram(scratch, []string{*pkg})
	if err != nil {
		fmt.Fprintln(os.Stderr, "load:", err)
		return 2
	}
	fmt.Printf("loaded in %.1fs\n", time.Since(t0).Seconds())
	f := p.Func(importPath(p, pkgs[*pkg]), *fn)
	if f == nil {
		fmt.Fprintln(os.Stderr, "no such harness", *fn)
		return 2
	}
	cfg := sym.DefaultConfig()
	cfg.Tier = *tier
	cfg.Trace = *trace
	cfg.MaxPathSecs = *pathSecs
	cfg.NoFastPath = os.Getenv("VF_NOFASTPATH") != ""
	if *prof != "" {
		f, _ := os.Create(*prof)
		pprof.StartCPUProfile(f)
		defer pprof.StopCPUProfile()
	}
	lim := sym.Limits{MaxPaths: *maxPaths}
	if *secs > 0 {
		lim.Deadline = time.Now().Add(time.Duration(*secs) * time.Second)
	}
	rep, err := sym.Explore(p, f, *workers, cfg, lim)
	if err != nil {
		fmt.Fprintln(os.Stderr, "explore:", err)
		return 2
	}
	fmt.Println(rep.Summary())
	printReportDetails(rep)
	for i, v := range rep.Violations {
		b, _ := json.Marshal(v)
		if i >= 2 {
			fmt.Printf("VIOLATION[%d] %s: %s\n", i, v.Kind, truncate(v.Msg, 200))
			continue
		}
		fmt.Printf("VIOLATION[%d] %s\n", i, truncate(string(b), 1500))
		for _, l := range v.Trace {
			fmt.Println("   trace:", l)
		}
		if *replay && i < 3 {
			out := replayNative(scratch, ov, pkgs[*pkg], v, *tier, i)
			fmt.Printf("   replay: %s\n", out.Verdict)
			if out.Verdict != "reproduced" {
				fmt.Println(indent(out.Output, "      "))
			} else {
				fmt.Println("      " + out.Detail)
			}
		}
	}
	return 0
}

func truncate(s string, n int) string {
	if len(s) > n {
		return s[:n] + "…"
	}
	return s
}

func indent(s, pre string) string {
	lines := strings.Split(strings.TrimSpace(s), "\n")
	if len(lines) > 40 {
		lines = lines[len(lines)-40:]
	}
	return pre + strings.Join(lines, "\n"+pre)
}

func printReportDetails(rep *sym.Report) {
	keys := func(m map[string]int) []string {
		var ks []string
		for k := range m {
			ks = append(ks, k)
		}
		sort.Strings(ks)
		return ks
	}
	for _, k := range keys(rep.UnsupportedMsgs) {
		fmt.Printf("  UNSUPPORTED x%d: %s\n", rep.UnsupportedMsgs[k], k)
	}
	for _, k := range keys(rep.UnwindMsgs) {
		fmt.Printf("  %s x%d\n", k, rep.UnwindMsgs[k])
	}
	for _, k := range keys(rep.Inconcl) {
		fmt.Printf("  INCONCLUSIVE x%d: %s\n", rep.Inconcl[k], k)
	}
	for _, k := range keys(rep.Reached) {
		fmt.Printf("  reach %s x%d\n", k, rep.Reached[k])
	}
	for _, k := range keys(rep.Notes) {
		fmt.Printf("  note x%d: %s\n", rep.Notes[k], k)
	}
}
