package sym

import (
	"go/types"
	"net/url"
)

// net/url: Parse and URL.Query run natively on concrete strings (the harnesses pass concrete
// data source names); the results are rebuilt as interpreter values.
func (p *Program) installURL() {
	in := p.intrinsics
	in["net/url.Parse"] = func(fr *frame, a []Value) Value {
		m := fr.m
		s := a[0].(Str)
		if !s.IsConcrete() {
			unsupportedf("url.Parse of a symbolic string")
		}
		u, err := url.Parse(s.Concrete())
		ut := m.P.namedType("net/url", "URL")
		if err != nil {
			return Tuple{(*Value)(nil), m.mkError(err.Error())}
		}
		cell := zero(ut)
		st := cell.(Struct)
		set := func(name string, v Value) { st[fieldIndex(ut, name)] = v }
		set("Scheme", MkStr(u.Scheme))
		set("Opaque", MkStr(u.Opaque))
		set("Host", MkStr(u.Host))
		set("Path", MkStr(u.Path))
		set("RawPath", MkStr(u.RawPath))
		set("RawQuery", MkStr(u.RawQuery))
		set("Fragment", MkStr(u.Fragment))
		set("OmitHost", KB(u.OmitHost))
		set("ForceQuery", KB(u.ForceQuery))
		var c Value = st
		return Tuple{&c, Iface{}}
	}
	in["(*net/url.URL).Query"] = func(fr *frame, a []Value) Value {
		m := fr.m
		p := a[0].(*Value)
		ut := m.P.namedType("net/url", "URL")
		raw := (*p).(Struct)[fieldIndex(ut, "RawQuery")].(Str)
		if !raw.IsConcrete() {
			unsupportedf("URL.Query of a symbolic query string")
		}
		vals, _ := url.ParseQuery(raw.Concrete())
		mp := &Map{ktype: types.Typ[types.String]}
		// deterministic order
		var keys []string
		for k := range vals {
			keys = append(keys, k)
		}
		sortStringsHost(keys)
		for _, k := range keys {
			vs := vals[k]
			b := &Backing{v: make([]Value, len(vs)), esize: 16}
			for i, v := range vs {
				b.v[i] = MkStr(v)
			}
			mp.keys = append(mp.keys, MkStr(k))
			mp.vals = append(mp.vals, Slice{a: b, len: len(vs), cap: len(vs)})
		}
		mp.reindex()
		return mp
	}
	in["(*net/url.URL).Hostname"] = func(fr *frame, a []Value) Value {
		m := fr.m
		p := a[0].(*Value)
		ut := m.P.namedType("net/url", "URL")
		h := (*p).(Struct)[fieldIndex(ut, "Host")].(Str).Concrete()
		u := url.URL{Host: h}
		return MkStr(u.Hostname())
	}
	in["(*net/url.URL).Port"] = func(fr *frame, a []Value) Value {
		m := fr.m
		p := a[0].(*Value)
		ut := m.P.namedType("net/url", "URL")
		h := (*p).(Struct)[fieldIndex(ut, "Host")].(Str).Concrete()
		u := url.URL{Host: h}
		return MkStr(u.Port())
	}
}

func sortStringsHost(a []string) {
	for i := 1; i < len(a); i++ {
		for j := i; j > 0 && a[j] < a[j-1]; j-- {
			a[j], a[j-1] = a[j-1], a[j]
		}
	}
}
