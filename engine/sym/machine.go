package sym

import (
	"fmt"
	"go/token"
	"go/types"
	"os"
	"sort"
	"strings"
	"time"

	"golang.org/x/tools/go/ssa"
)

// PathEndKind classifies how a path ended.
type PathEndKind int

const (
	EndOK PathEndKind = iota
	EndPanic
	EndAssertFail
	EndAssumeFalse
	EndOutOfBound
	EndUnwind
	EndUnsupported
	EndDeadlock
	EndLeak
	EndInfeasible
	EndInternal
	EndRace
)

var endNames = map[PathEndKind]string{
	EndOK: "ok", EndPanic: "PANIC", EndAssertFail: "ASSERT-FAIL", EndAssumeFalse: "ASSUME-FALSE",
	EndOutOfBound: "OUT-OF-BOUND", EndUnwind: "UNWIND", EndUnsupported: "UNSUPPORTED",
	EndDeadlock: "DEADLOCK", EndLeak: "LEAKED-GOROUTINE", EndInfeasible: "INFEASIBLE", EndInternal: "INTERNAL", EndRace: "RACE-CANDIDATE",
}

func (k PathEndKind) String() string { return endNames[k] }

// pathEnd is thrown (as a host panic) to terminate the current path.
type pathEnd struct {
	kind PathEndKind
	msg  string
}

// killG is thrown inside interpreted goroutines when the path is torn down.
type killG struct{}

// targetPanic is a panic of the interpreted program.
type targetPanic struct {
	v   Value // the panic value (an Iface)
	pos string
}

// NondetRec records one nondeterministic input of the harness.
type NondetRec struct {
	Name  string `json:"name"`
	Kind  string `json:"kind"` // u8,u16,u32,u64,bool,choice,bytes
	Value uint64 `json:"value"`
	term  *Term
}

// Violation is a counterexample found on a path.
type Violation struct {
	Harness   string      `json:"harness"`
	Kind      string      `json:"kind"` // ASSERT-FAIL, PANIC, DEADLOCK, LEAKED-GOROUTINE
	Msg       string      `json:"msg"`
	Nondet    []NondetRec `json:"nondet"`
	Decisions []int32     `json:"-"`
	Validated bool        `json:"validated"`
	Schedule  bool        `json:"schedule,omitempty"` // found under explicit schedule exploration
	Trace     []string    `json:"trace,omitempty"`
	// Sites: statements of the code under test ("file:line") between which the failing
	// interleaving switches goroutines, or which form the unordered pair of a data race; the
	// native replay widens the windows there (delay injection) when a plain run passes.
	Sites []string `json:"sites,omitempty"`
}

// PathResult summarises one explored path.
type PathResult struct {
	Kind      PathEndKind
	Msg       string
	Steps     int
	Reached   []string
	Violation *Violation
	Inconcl   []string // undecided obligations
	Branches  int      // solver-decided branches on this path
	Notes     []string
	Sample    string
	Witness   *Violation // concrete inputs of a passing path (for native differential runs)
}

const forcedBit = 1 << 30

// Machine executes one path at a time.
type Machine struct {
	P   *Program
	sol *Solver

	cfg Config

	globals map[*ssa.Global]*Value

	// decision log
	prefix    []int32
	dpos      int
	decisions []int32
	newWork   [][]int32

	pc       []*Term
	vars     map[string]uint8
	nondet   []NondetRec
	nseq     int
	steps    int
	depth    int
	reached  []string
	inconcl  []string
	notes    []string
	branches int

	// goroutines
	gs           []*G
	cur          *G
	abort        *abortInfo
	condWaiters  []*G
	quiescing    bool
	killing      bool
	schedOn      bool
	schedUsed    bool
	preempts     int
	atomicVals   map[*Value]*Value
	conds        map[*Value]*condState
	lazyBoot     bool               // this machine runs a package initialiser (lazyInit): no nested lazy initialisation
	raceExempt   int                // >0: accesses are not recorded by the race analysis (model-internal registries)
	baseMaxLoop  int                // the configured loop bound (verifMaxLoop lowers cfg.MaxLoop for one path)
	digests      map[*Value][]*Term // bytes written to streaming xxhash digests
	bmShapes     map[string]bmShape // verifSizedBitmap: size and container kind per bitmap variable
	fsFault      bool               // every open fails with EMFILE (verifFsFault)
	advPath      string             // path the environment may create (verifFsAdversary)
	advActed     bool
	advGen       int
	siteCache    map[token.Pos]string
	topFrame     *frame   // frame of the instruction being executed
	sites        []string // statements of the code under test at which this path was preempted (schedule mode)
	preemptBound int
	schedChans   bool

	// host-side state of intrinsics, reset per path
	mutexes       map[*Value]*mutexState
	ghostFS       map[string]*ghostFile
	flocks        map[string]bool
	gobBlobs      []Value
	hashVars      map[string]*Term
	hashApps      []hashApp
	absHash       bool
	absHashPrefix string
	mapOrder      int
	funcsSeen     map[*ssa.Function]int
	lockset       *locksetState
	locksetOn     bool
	expectPanic   bool
	heapObjs      int
	harness       string
	loopCount     map[loopKey]int
	trace         []string
	symIdxForks   int
	outOfBound    int
	tempSeq       int
	openFiles     map[*Value]string
	csvReaders    map[*Value]*csvReader
	csvFiles      map[string]*csvFile
	pools         map[*Value][]Value
	syncMaps      map[*Value]*Map
	onces         map[*Value]bool
	fsLog         []string
	wgs           map[*Value]*int
	cardApps      []cardApp
	cardBoundT    *Term
	cardBoundN    int

	WantSample func() bool
	pathStart  time.Time

	known               map[uint64][]knownCond // conditions already decided on this path
	dom                 map[string]*[4]uint64  // feasible values of 8-bit variables constrained only by single-variable conditions
	multi               map[string]bool        // variables occurring in a multi-variable (or UF) constraint
	DomHits             int
	pool                []*Assignment // models of the current path condition
	PoolHits, KnownHits int
}

type knownCond struct {
	t   *Term
	val bool
}

type loopKey struct {
	fr *frame
	b  *ssa.BasicBlock
}

type hashApp struct {
	bytes []*Term
	res   *Term
}

// Config holds per-run engine limits.
type Config struct {
	MaxSteps     int
	MaxDepth     int
	MaxLoop      int
	SolverMs     int
	PortfolioSec int
	Trace        bool
	Tier         int
	MaxPathSecs  int
	NoFastPath   bool // decide every branch with the solver (cross-check of the byte-domain fast path)
}

func DefaultConfig() Config {
	return Config{MaxPathSecs: 300, MaxSteps: 30_000_000, MaxDepth: 400, MaxLoop: 200000, SolverMs: 20000, PortfolioSec: 60}
}

func NewMachine(p *Program, cfg Config) (*Machine, error) {
	kind := os.Getenv("VF_SOLVER") // z3 (default), z3-new, cvc5: cross-checks of the encoding
	if kind == "" {
		kind = "z3"
	}
	sol, err := NewSolver(kind, cfg.SolverMs)
	if err != nil {
		return nil, err
	}
	return &Machine{P: p, sol: sol, cfg: cfg}, nil
}

func (m *Machine) Close() { m.sol.Close() }

func (m *Machine) end(kind PathEndKind, format string, args ...interface{}) {
	panic(pathEnd{kind, fmt.Sprintf(format, args...)})
}

// ---------------------------------------------------------------------------
// decisions

func (m *Machine) replaying() bool { return m.dpos < len(m.prefix) }

// decideN resolves an n-way choice. feas(i) reports the feasibility of choice i and is
// only called when not replaying. The returned flag tells whether the choice was forced
// (the only feasible one).
func (m *Machine) decideN(kind string, n int, feas func(i int) SatResult) int {
	if m.replaying() {
		c := m.prefix[m.dpos]
		m.dpos++
		m.decisions = append(m.decisions, c)
		return int(c &^ forcedBit)
	}
	var ok []int
	for i := 0; i < n; i++ {
		r := Sat
		if feas != nil {
			r = feas(i)
		}
		if r != Unsat {
			ok = append(ok, i)
		}
	}
	if len(ok) == 0 {
		m.end(EndInfeasible, "no feasible choice at %s", kind)
	}
	if len(ok) == 1 {
		m.decisions = append(m.decisions, int32(ok[0])|forcedBit)
		m.dpos++
		return ok[0]
	}
	for _, alt := range ok[1:] {
		w := make([]int32, len(m.decisions)+1)
		copy(w, m.decisions)
		w[len(m.decisions)] = int32(alt)
		m.newWork = append(m.newWork, w)
	}
	m.decisions = append(m.decisions, int32(ok[0]))
	m.dpos++
	return ok[0]
}

func (m *Machine) assertPC(c *Term) {
	if c.op == OpConst {
		if c.val == 0 {
			m.end(EndInfeasible, "false path condition")
		}
		return
	}
	m.pc = append(m.pc, c)
	m.sol.Assert(c)
	m.remember(c, true)
	m.updateDomains(c)
	if len(m.pool) > 0 {
		keep := m.pool[:0]
		for _, as := range m.pool {
			if as.Eval(c) == 1 {
				keep = append(keep, as)
			}
		}
		m.pool = keep
	}
}

// byteVar reports whether c depends on exactly one variable, of 8 bits, and on no
// uninterpreted function.
func byteVar(c *Term) (*Term, bool) {
	vs, ok := varsOf(c)
	if !ok || len(vs) != 1 || vs[0].w != 8 {
		return nil, false
	}
	if c.tt == nil && c.HasOp(OpUF) {
		return nil, false
	}
	return vs[0], true
}

func (m *Machine) domain(v *Term) *[4]uint64 {
	d := m.dom[v.name]
	if d == nil {
		d = &[4]uint64{^uint64(0), ^uint64(0), ^uint64(0), ^uint64(0)}
		m.dom[v.name] = d
	}
	return d
}

// specialize replaces single-byte subterms that are constant over the current domain of
// their variable by that constant (e.g. utf8's first[b0] once b0 is known to be a 2-byte
// lead), so that a condition over two bytes becomes a condition over one.
func (m *Machine) specialize(t *Term, depth int) *Term {
	if t.op == OpConst || t.op == OpVar || depth > 60 {
		return t
	}
	vs, few := varsOf(t)
	if len(vs) == 0 {
		return t
	}
	if few && len(vs) == 1 && vs[0].w == 8 && !m.multi[vs[0].name] && !t.HasOp(OpUF) {
		d := m.dom[vs[0].name]
		if d == nil {
			return t
		}
		vec := byteVec(t)
		first := true
		var val uint64
		for x := 0; x < 256; x++ {
			if d[x>>6]&(1<<(uint(x)&63)) == 0 {
				continue
			}
			if first {
				val, first = vec[x], false
			} else if vec[x] != val {
				return t
			}
		}
		if first {
			return t
		}
		return K(int(t.w), val)
	}
	if t.op == OpUF {
		return t
	}
	changed := false
	args := make([]*Term, len(t.args))
	for i, a := range t.args {
		args[i] = m.specialize(a, depth+1)
		if args[i] != a {
			changed = true
		}
	}
	if !changed {
		return t
	}
	switch t.op {
	case OpAdd, OpSub, OpMul, OpUDiv, OpSDiv, OpURem, OpSRem, OpAnd, OpOr, OpXor, OpShl, OpLShr, OpAShr:
		return Bin(t.op, args[0], args[1])
	case OpEq, OpUlt, OpUle, OpSlt, OpSle:
		return Cmp(t.op, args[0], args[1])
	case OpNot:
		return Not(args[0])
	case OpNeg:
		return Neg(args[0])
	case OpIte:
		return Ite(args[0], args[1], args[2])
	case OpZext:
		return Zext(args[0], int(t.w))
	case OpSext:
		return Sext(args[0], int(t.w))
	case OpExtract:
		return Extract(args[0], int(t.val), int(t.w))
	case OpConcat:
		return Concat(args[0], args[1])
	case OpBAnd:
		return BAnd(args[0], args[1])
	case OpBOr:
		return BOr(args[0], args[1])
	case OpBNot:
		return BNot(args[0])
	}
	return t
}

func (m *Machine) updateDomains(c *Term) {
	if _, single := byteVar(c); !single {
		if vs, few := varsOf(c); few && len(vs) == 2 {
			c = m.specialize(c, 0)
			if c.op == OpConst {
				return
			}
		}
	}
	if v, ok := byteVar(c); ok {
		d := m.domain(v)
		tt := truthTable(c)
		for i := range d {
			d[i] &= tt[i]
		}
		return
	}
	vs, _ := varsOf(c)
	for _, v := range vs {
		m.multi[v.name] = true
	}
	if len(vs) > 2 || c.HasOp(OpUF) {
		// more variables than tracked: collect them all
		all := map[string]uint8{}
		c.CollectVars(all)
		for n := range all {
			m.multi[n] = true
		}
	}
}

// domainSplit decides a single-byte condition by enumeration: exact when every constraint on
// that byte so far is a single-variable one (the others cannot restrict it).
func (m *Machine) domainSplit(c *Term) (canT, canF, ok bool) {
	if _, single := byteVar(c); !single {
		if vs, few := varsOf(c); few && len(vs) == 2 {
			c = m.specialize(c, 0)
			if c.op == OpConst {
				return c.val == 1, c.val == 0, true
			}
		}
	}
	v, isByte := byteVar(c)
	if !isByte || m.multi[v.name] {
		return false, false, false
	}
	d := m.domain(v)
	tt := truthTable(c)
	for i := range d {
		if d[i]&tt[i] != 0 {
			canT = true
		}
		if d[i]&^tt[i] != 0 {
			canF = true
		}
	}
	return canT, canF, true
}

func (m *Machine) remember(c *Term, val bool) {
	if c.op == OpBNot {
		c, val = c.args[0], !val
	}
	h := c.Hash()
	m.known[h] = append(m.known[h], knownCond{c, val})
}

func (m *Machine) lookupKnown(c *Term) (val bool, ok bool) {
	neg := false
	if c.op == OpBNot {
		c, neg = c.args[0], true
	}
	for _, k := range m.known[c.Hash()] {
		if termEqual(k.t, c) {
			return k.val != neg, true
		}
	}
	return false, false
}

// checkFeasible decides satisfiability of pc ∧ c using the model pool before the solver.
func (m *Machine) checkFeasible(c *Term) SatResult {
	for _, as := range m.pool {
		if as.Eval(c) == 1 {
			m.PoolHits++
			return Sat
		}
	}
	res, as := m.sol.CheckModelFast(c, m.vars)
	if res == Sat && as != nil && len(m.pool) < 8 {
		m.pool = append(m.pool, as)
	}
	return res
}

// branch decides a symbolic condition, forking when both outcomes are feasible.
func (m *Machine) branch(c *Term) bool {
	if c.op == OpConst {
		return c.val == 1
	}
	if m.replaying() {
		d := m.prefix[m.dpos]
		m.dpos++
		m.decisions = append(m.decisions, d)
		take := d&^forcedBit == 1
		if d&forcedBit == 0 {
			if take {
				m.assertPC(c)
			} else {
				m.assertPC(BNot(c))
			}
		}
		return take
	}
	if v, ok := m.lookupKnown(c); ok {
		m.KnownHits++
		d := int32(0)
		if v {
			d = 1
		}
		m.decisions = append(m.decisions, d|forcedBit)
		m.dpos++
		return v
	}
	if canT, canF, ok := m.domainSplit(c); ok && !m.cfg.NoFastPath {
		m.DomHits++
		switch {
		case canT && canF:
			w := make([]int32, len(m.decisions)+1)
			copy(w, m.decisions)
			w[len(m.decisions)] = 0
			m.newWork = append(m.newWork, w)
			m.decisions = append(m.decisions, 1)
			m.dpos++
			m.assertPC(c)
			return true
		case canT:
			m.decisions = append(m.decisions, 1|forcedBit)
			m.dpos++
			m.remember(c, true)
			return true
		case canF:
			m.decisions = append(m.decisions, 0|forcedBit)
			m.dpos++
			m.remember(c, false)
			return false
		default:
			m.end(EndInfeasible, "empty byte domain")
		}
	}
	m.branches++
	if os.Getenv("VF_BRANCHLOG") != "" {
		vs, few := varsOf(c)
		x := c.String()
		if len(x) > 300 {
			x = x[:300]
		}
		fmt.Fprintf(os.Stderr, "BRANCHQ vars=%d few=%v %s\n", len(vs), few, x)
	}
	nc := BNot(c)
	rT := m.checkFeasible(c)
	if rT == Unsat {
		m.decisions = append(m.decisions, 0|forcedBit)
		m.dpos++
		m.remember(c, false)
		return false
	}
	rF := m.checkFeasible(nc)
	if rF == Unsat {
		m.decisions = append(m.decisions, 1|forcedBit)
		m.dpos++
		m.remember(c, true)
		return true
	}
	// both feasible (or unknown): take true now, queue false
	w := make([]int32, len(m.decisions)+1)
	copy(w, m.decisions)
	w[len(m.decisions)] = 0
	m.newWork = append(m.newWork, w)
	m.decisions = append(m.decisions, 1)
	m.dpos++
	m.assertPC(c)
	return true
}

// concretize forks over the possible values of a small symbolic integer in [0,n).
// Values >= n (unsigned) are reported through the returned -1.
func (m *Machine) forkIndex(idx *Term, n int, what string) int {
	if idx.op == OpConst {
		v := idx.val
		if idx.w == 64 && int64(v) < 0 || v >= uint64(n) {
			return -1
		}
		return int(v)
	}
	m.symIdxForks++
	w := int(idx.w)
	if m.replaying() {
		d := m.prefix[m.dpos]
		m.dpos++
		m.decisions = append(m.decisions, d)
		c := int(d &^ forcedBit)
		if c == n {
			m.assertPC(Cmp(OpUle, K(w, uint64(n)), idx))
			return -1
		}
		m.assertPC(Cmp(OpEq, idx, K(w, uint64(c))))
		return c
	}
	c := m.decideN(what, n+1, func(i int) SatResult {
		if i == n {
			return m.sol.Check(Cmp(OpUle, K(w, uint64(n)), idx))
		}
		return m.sol.Check(Cmp(OpEq, idx, K(w, uint64(i))))
	})
	if c == n {
		m.assertPC(Cmp(OpUle, K(w, uint64(n)), idx))
		return -1
	}
	m.assertPC(Cmp(OpEq, idx, K(w, uint64(c))))
	return c
}

// ---------------------------------------------------------------------------
// nondeterministic inputs, assume, assert

func sanitize(name string) string {
	var sb strings.Builder
	for _, r := range name {
		if (r >= 'a' && r <= 'z') || (r >= 'A' && r <= 'Z') || (r >= '0' && r <= '9') || r == '_' {
			sb.WriteRune(r)
		} else {
			sb.WriteByte('_')
		}
	}
	return sb.String()
}

func (m *Machine) newVar(name, kind string, w int) *Term {
	m.nseq++
	vn := fmt.Sprintf("v%d_%s", m.nseq, sanitize(name))
	t := Var(vn, w)
	m.vars[vn] = uint8(w)
	m.nondet = append(m.nondet, NondetRec{Name: name, Kind: kind, term: t})
	return t
}

func (m *Machine) choice(name string, n int) int {
	if n <= 0 {
		m.end(EndInternal, "verifChoice with n=%d", n)
	}
	c := 0
	if n > 1 {
		c = m.decideN("choice:"+name, n, nil)
	}
	m.nseq++
	m.nondet = append(m.nondet, NondetRec{Name: name, Kind: "choice", Value: uint64(c)})
	return c
}

func (m *Machine) assume(c *Term) {
	if c.op == OpConst {
		if c.val == 0 {
			m.end(EndAssumeFalse, "assume(false)")
		}
		return
	}
	if !m.replaying() {
		if m.sol.Check(c) == Unsat {
			m.end(EndAssumeFalse, "assumption unsatisfiable")
		}
	}
	m.assertPC(c)
}

// model returns an assignment satisfying the path condition (and extra), validated by the
// engine's own evaluator.
func (m *Machine) model(extra *Term) (SatResult, *Assignment) {
	res, as := m.sol.CheckModel(extra, m.vars)
	if res != Sat || as == nil {
		return res, nil
	}
	return res, as
}

func (m *Machine) validate(as *Assignment, extra *Term) bool {
	for _, c := range m.pc {
		if as.Eval(c) != 1 {
			return false
		}
	}
	if extra != nil && as.Eval(extra) != 1 {
		return false
	}
	return true
}

func (m *Machine) mkViolation(kind, msg string, as *Assignment) *Violation {
	v := &Violation{Harness: m.harness, Kind: kind, Msg: msg}
	for _, r := range m.nondet {
		rr := r
		if r.term != nil && as != nil {
			rr.Value = as.Eval(r.term)
		}
		rr.term = nil
		v.Nondet = append(v.Nondet, rr)
	}
	v.Decisions = append([]int32(nil), m.decisions...)
	v.Schedule = m.schedUsed
	v.Sites = append([]string(nil), m.sites...)
	if kind == "RACE-CANDIDATE" && m.lockset != nil {
		v.Sites = append([]string(nil), m.lockset.sites...)
	}
	v.Trace = append([]string(nil), m.trace...)
	return v
}

type violationEnd struct {
	v *Violation
}

func (m *Machine) assertProp(c *Term, msg string) {
	if c.op == OpConst && c.val == 1 {
		return
	}
	if m.replaying() {
		// proven by the parent run (pc implies c): nothing to add
		return
	}
	nc := BNot(c)
	if len(m.cardApps) > 0 {
		nc = BAnd(nc, m.cardBounds())
	}
	res, as := m.model(nc)
	if res == Sat && as != nil && len(m.cardApps) > 0 {
		// the cardinality function is uninterpreted: prefer a counterexample under true popcount
		ext := nc
		for _, ca := range m.cardApps {
			ext = BAnd(ext, Cmp(OpEq, ca.res, popcountTerm(ca.arg)))
		}
		m.sol.OverrideMs = 5000
		r2, as2 := m.model(ext)
		m.sol.OverrideMs = 0
		if r2 == Sat && as2 != nil {
			as = as2
		} else {
			m.notes = append(m.notes, "counterexample relies on uninterpreted cardinality (popcount refinement: "+r2.String()+")")
		}
	}
	if res == Unknown || (res == Sat && as == nil) {
		// portfolio
		pr := m.sol.Portfolio(nc, m.cfg.PortfolioSec)
		switch pr {
		case Unsat:
			res = Unsat
		case Sat:
			// sat elsewhere but no model here: inconclusive (cannot replay)
			m.inconcl = append(m.inconcl, "assert("+msg+"): sat in portfolio solver without model")
			res = Unknown
		default:
			m.inconcl = append(m.inconcl, "assert("+msg+"): undecided by all solvers")
		}
	}
	switch res {
	case Sat:
		v := m.mkViolation("ASSERT-FAIL", msg, as)
		v.Validated = m.validate(as, nc)
		panic(violationEnd{v})
	case Unsat:
		// pc implies c; not added to the path condition (keeps branch queries small)
	default:
		m.assertPC(c)
	}
}

// failHere reports a violation that holds on the whole current path (panic, deadlock, leak).
func (m *Machine) failHere(kind, msg string) {
	res, as := m.model(nil)
	v := m.mkViolation(kind, msg, as)
	if res == Sat && as != nil {
		v.Validated = m.validate(as, nil)
	}
	panic(violationEnd{v})
}

// ---------------------------------------------------------------------------
// running a path

func (m *Machine) resetPath(prefix []int32) {
	m.prefix = prefix
	m.dpos = 0
	m.decisions = m.decisions[:0]
	m.newWork = nil
	m.pc = m.pc[:0]
	m.vars = map[string]uint8{}
	m.nondet = nil
	m.nseq = 0
	m.steps = 0
	m.depth = 0
	m.reached = nil
	m.inconcl = nil
	m.notes = nil
	m.branches = 0
	m.gs = nil
	m.cur = nil
	m.abort = nil
	m.condWaiters = nil
	m.killing = false
	m.schedOn = false
	m.schedUsed = false
	m.preempts = 0
	m.sites = nil
	m.topFrame = nil
	m.advPath, m.advActed, m.advGen = "", false, 0
	m.atomicVals, m.conds = nil, nil
	m.fsFault = false
	m.digests = nil
	m.bmShapes = nil
	if m.baseMaxLoop == 0 {
		m.baseMaxLoop = m.cfg.MaxLoop
	}
	m.cfg.MaxLoop = m.baseMaxLoop
	m.raceExempt = 0
	m.preemptBound = 2
	m.mutexes = map[*Value]*mutexState{}
	m.ghostFS = map[string]*ghostFile{}
	m.flocks = map[string]bool{}
	m.gobBlobs = nil
	m.hashVars = map[string]*Term{}
	m.hashApps = nil
	m.absHash = false
	m.absHashPrefix = ""
	m.mapOrder = 1
	m.lockset = nil
	m.locksetOn = false
	m.expectPanic = false
	m.loopCount = map[loopKey]int{}
	m.trace = nil
	m.symIdxForks = 0
	m.tempSeq = 0
	m.pathStart = time.Now()
	m.openFiles = nil
	m.csvFiles = nil
	m.pools = nil
	m.syncMaps = nil
	m.onces = nil
	m.fsLog = nil
	m.wgs = nil
	m.cardApps = nil
	m.cardBoundT = nil
	m.cardBoundN = 0
	m.known = map[uint64][]knownCond{}
	m.dom = map[string]*[4]uint64{}
	m.multi = map[string]bool{}
	m.pool = m.pool[:0]
	m.initGlobals()
}

// RunPath executes harness fn along the decision prefix and returns the result and the
// work items for the alternatives discovered.
func (m *Machine) RunPath(fn *ssa.Function, prefix []int32) (res PathResult, work [][]int32) {
	m.sol.BeginPath()
	defer m.sol.EndPath()
	m.harness = fn.Name()
	func() {
		defer func() {
			r := recover()
			m.teardownGoroutines()
			switch r := r.(type) {
			case nil:
				res.Kind = EndOK
			case pathEnd:
				res.Kind = r.kind
				res.Msg = r.msg
				if r.kind == EndUnwind && !m.replaying() {
					// the path did not end within the unwind bound: possibly a non-terminating
					// run. Its inputs are handed to the native replay, which decides (a run that
					// does not finish within the hang limit is a confirmed violation; one that
					// does finish leaves the path inconclusive).
					func() {
						defer func() { recover() }()
						if sr, as := m.model(nil); sr == Sat && as != nil {
							res.Violation = m.mkViolation("NONTERMINATION", "the run did not end within the unwind bound ("+r.msg+")", as)
						}
					}()
				}
			case violationEnd:
				res.Kind = EndAssertFail
				if r.v.Kind != "ASSERT-FAIL" {
					res.Kind = map[string]PathEndKind{"PANIC": EndPanic, "DEADLOCK": EndDeadlock, "LEAKED-GOROUTINE": EndLeak, "RACE-CANDIDATE": EndRace}[r.v.Kind]
				}
				res.Msg = r.v.Msg
				res.Violation = r.v
			case unsupported:
				res.Kind = EndUnsupported
				res.Msg = r.what
			default:
				panic(r)
			}
		}()
		m.resetPath(prefix)
		g0 := &G{id: 0, wake: make(chan struct{}, 1)}
		m.gs = []*G{g0}
		m.cur = g0
		m.runInits()
		func() {
			defer func() {
				if r := recover(); r != nil {
					if tp, ok := r.(targetPanic); ok {
						if m.expectPanic {
							return
						}
						m.failHere("PANIC", "unrecovered panic: "+m.panicString(tp.v)+" at "+tp.pos)
					}
					panic(r)
				}
			}()
			m.call(nil, token.NoPos, fn, nil)
		}()
		// harness returned: let runnable goroutines finish or block, then see who is left
		m.quiesce()
		var left []string
		for _, g := range m.gs[1:] {
			if !g.done {
				left = append(left, fmt.Sprintf("g%d(%s) blocked on %s", g.id, g.name, g.blockedOn))
			}
		}
		if len(left) > 0 && !m.cfg.allowLeak() {
			m.failHere("LEAKED-GOROUTINE", strings.Join(left, "; "))
		}
		if m.WantSample != nil && m.WantSample() {
			if r, as := m.model(nil); r == Sat && as != nil {
				res.Witness = m.mkViolation("SAMPLE", "passing path", as)
			}
		}
	}()
	if m.cfg.Trace && res.Violation == nil && len(m.trace) > 0 {
		res.Notes = append(res.Notes, "trace: "+strings.Join(m.trace, " | "))
	}
	res.Steps = m.steps
	res.Reached = m.reached
	res.Inconcl = m.inconcl
	res.Branches = m.branches
	res.Notes = m.notes
	if res.Violation == nil {
		res.Sample = m.sampleString()
	}
	return res, m.newWork
}

func (c Config) allowLeak() bool { return false }

// quiesce runs the other goroutines until none of them is runnable.
func (m *Machine) quiesce() {
	for iter := 0; iter < 10000; iter++ {
		var next *G
		for _, g := range m.gs {
			if g != m.cur && !g.done && !g.blocked {
				next = g
				break
			}
		}
		if next == nil {
			return
		}
		// park the main goroutine as "blocked on quiesce" so that dispatch returns to it only
		// when nobody else can run
		m.cur.blocked = true
		m.cur.blockedOn = "harness end"
		m.quiescing = true
		m.switchTo(next)
		m.quiescing = false
		m.cur.blocked = false
	}
}

func (m *Machine) sampleString() string {
	var parts []string
	for _, r := range m.nondet {
		if r.Kind == "choice" || r.Kind == "bool" {
			parts = append(parts, fmt.Sprintf("%s=%d", r.Name, r.Value))
		} else {
			parts = append(parts, r.Name+":"+r.Kind)
		}
		if len(parts) > 24 {
			parts = append(parts, "…")
			break
		}
	}
	return strings.Join(parts, " ")
}

func (m *Machine) panicString(v Value) string {
	if i, ok := v.(Iface); ok {
		if i.t == nil {
			return "nil"
		}
		if s, ok := i.v.(Str); ok {
			return showValue(s)
		}
		// error values: try the common shapes
		if p, ok := i.v.(*Value); ok && p != nil {
			if st, ok := (*p).(Struct); ok && len(st) > 0 {
				if s, ok := st[0].(Str); ok {
					return i.t.String() + ":" + showValue(s)
				}
			}
		}
		return i.t.String()
	}
	return showValue(v)
}

// ---------------------------------------------------------------------------
// globals and package initialisation

func (m *Machine) initGlobals() {
	m.globals = map[*ssa.Global]*Value{}
	m.P.sharedMu.RLock()
	for g, v := range m.P.sharedGlobals {
		m.globals[g] = v
	}
	m.P.sharedMu.RUnlock()
	for _, pkg := range m.P.perPathPkgs {
		for _, mem := range pkg.Members {
			if g, ok := mem.(*ssa.Global); ok {
				cell := zero(deref(g.Type()))
				m.globals[g] = &cell
			}
		}
	}
}

func (m *Machine) global(g *ssa.Global) *Value {
	if v, ok := m.globals[g]; ok {
		return v
	}
	// a global of a package whose initialiser the engine does not run: its value would be the
	// zero value, not what the program sees. Only globals without initialiser are safe.
	if g.Pkg != nil && g.Pkg.Pkg.Path() == "os" && strings.HasPrefix(g.Name(), "Err") {
		// os.ErrExist & co are aliases of the io/fs values (package os itself is not initialised)
		if fsp := m.P.byPath["io/fs"]; fsp != nil {
			if fg, ok := fsp.Members[g.Name()].(*ssa.Global); ok {
				v := m.global(fg)
				m.globals[g] = v
				return v
			}
		}
	}
	if g.Pkg != nil && !m.lazyBoot && !m.P.isInitRun(g.Pkg) && m.P.hasInitializer(g) {
		// standard-library packages are initialised on first use (their globals are treated as
		// immutable afterwards and shared between paths); anything else is not run at all
		if !m.P.lazyInit(g.Pkg) {
			unsupportedf("package %s is not initialised by the engine (global %s)", g.Pkg.Pkg.Path(), g.Name())
		}
		m.P.sharedMu.RLock()
		v, ok := m.P.sharedGlobals[g]
		m.P.sharedMu.RUnlock()
		if ok {
			m.globals[g] = v
			return v
		}
	}
	cell := zero(deref(g.Type()))
	m.globals[g] = &cell
	return &cell
}

func (m *Machine) runInits() {
	for _, pkg := range m.P.perPathPkgs {
		if init := pkg.Func("init"); init != nil {
			m.callInit(init)
		}
	}
}

// callInit runs a package initializer but skips calls to other packages' init functions.
func (m *Machine) callInit(init *ssa.Function) {
	m.call(nil, token.NoPos, init, nil)
}

func deref(t types.Type) types.Type {
	if p, ok := t.Underlying().(*types.Pointer); ok {
		return p.Elem()
	}
	panic(fmt.Sprintf("deref of non-pointer %s", t))
}

func sortedKeys(m map[string]int) []string {
	var ks []string
	for k := range m {
		ks = append(ks, k)
	}
	sort.Strings(ks)
	return ks
}

// condState: sync.Cond as a ticket queue (Signal releases the oldest waiter, Broadcast all).
type condState struct {
	next, released int
}

// bmShape: what verifSizedBitmap fixed about a bitmap: its in-memory size and whether it is
// made of run containers (sizes as the real library reports them, see serSizeOf).
type bmShape struct {
	sz    *Term
	isRun *Term
}
