// Package sym is a forking symbolic interpreter for go/ssa whose path
// conditions and assertions are decided by an SMT solver.
package sym

import _ "golang.org/x/tools/go/ssa"
import _ "golang.org/x/tools/go/packages"
import _ "golang.org/x/tools/go/ssa/ssautil"
