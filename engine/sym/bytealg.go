package sym

import (
	"go/token"
	"go/types"
	"strings"
)

// internal/bytealg (assembly in the real runtime) and a few leaf functions of strings/bytes:
// with these the pure-Go bodies of package strings and bytes run in the interpreter.
func (p *Program) installBytealg() {
	in := p.intrinsics
	indexByte := func(ts []*Term, c *Term) Value {
		r := K(64, ^uint64(0))
		for i := len(ts) - 1; i >= 0; i-- {
			r = Ite(Cmp(OpEq, ts[i], c), K(64, uint64(i)), r)
		}
		return r
	}
	lastIndexByte := func(ts []*Term, c *Term) Value {
		r := K(64, ^uint64(0))
		for i := 0; i < len(ts); i++ {
			r = Ite(Cmp(OpEq, ts[i], c), K(64, uint64(i)), r)
		}
		return r
	}
	count := func(ts []*Term, c *Term) Value {
		n := K(64, 0)
		for _, t := range ts {
			n = Bin(OpAdd, n, Ite(Cmp(OpEq, t, c), K(64, 1), K(64, 0)))
		}
		return n
	}
	in["internal/bytealg.IndexByteString"] = func(fr *frame, a []Value) Value {
		return indexByte(a[0].(Str).Terms(), a[1].(*Term))
	}
	in["internal/bytealg.IndexByte"] = func(fr *frame, a []Value) Value {
		return indexByte(sliceTerms(a[0].(Slice)), a[1].(*Term))
	}
	in["internal/bytealg.LastIndexByteString"] = func(fr *frame, a []Value) Value {
		return lastIndexByte(a[0].(Str).Terms(), a[1].(*Term))
	}
	in["internal/bytealg.LastIndexByte"] = func(fr *frame, a []Value) Value {
		return lastIndexByte(sliceTerms(a[0].(Slice)), a[1].(*Term))
	}
	in["internal/bytealg.CountString"] = func(fr *frame, a []Value) Value {
		return count(a[0].(Str).Terms(), a[1].(*Term))
	}
	in["internal/bytealg.Count"] = func(fr *frame, a []Value) Value {
		return count(sliceTerms(a[0].(Slice)), a[1].(*Term))
	}
	in["internal/bytealg.Equal"] = func(fr *frame, a []Value) Value {
		return StrEq(StrFromTerms(sliceTerms(a[0].(Slice))), StrFromTerms(sliceTerms(a[1].(Slice))))
	}
	in["bytes.Equal"] = in["internal/bytealg.Equal"]
	cmp := func(x, y Str) Value {
		lt := StrLt(x, y)
		eq := StrEq(x, y)
		return Ite(lt, K(64, ^uint64(0)), Ite(eq, K(64, 0), K(64, 1)))
	}
	in["internal/bytealg.Compare"] = func(fr *frame, a []Value) Value {
		return cmp(StrFromTerms(sliceTerms(a[0].(Slice))), StrFromTerms(sliceTerms(a[1].(Slice))))
	}
	in["bytes.Compare"] = in["internal/bytealg.Compare"]
	in["strings.Compare"] = func(fr *frame, a []Value) Value { return cmp(a[0].(Str), a[1].(Str)) }
	in["internal/bytealg.CompareString"] = in["strings.Compare"]
	index := func(fr *frame, s, sub Str) Value {
		if s.IsConcrete() && sub.IsConcrete() {
			return K(64, uint64(int64(strings.Index(s.Concrete(), sub.Concrete()))))
		}
		// first position at which sub matches (forks per candidate position)
		m := fr.m
		n, k := s.Len(), sub.Len()
		for i := 0; i+k <= n; i++ {
			if m.branch(StrEq(s.Sub(i, i+k), sub)) {
				return K(64, uint64(i))
			}
		}
		return K(64, ^uint64(0))
	}
	in["internal/bytealg.IndexString"] = func(fr *frame, a []Value) Value { return index(fr, a[0].(Str), a[1].(Str)) }
	in["internal/bytealg.Index"] = func(fr *frame, a []Value) Value {
		return index(fr, StrFromTerms(sliceTerms(a[0].(Slice))), StrFromTerms(sliceTerms(a[1].(Slice))))
	}
	in["strings.Index"] = func(fr *frame, a []Value) Value { return index(fr, a[0].(Str), a[1].(Str)) }
	in["internal/stringslite.Index"] = in["strings.Index"]
	in["bytes.Index"] = in["internal/bytealg.Index"]
	in["internal/bytealg.MakeNoZero"] = func(fr *frame, a []Value) Value {
		n := fr.m.concreteInt(a[0], "MakeNoZero length")
		return fr.m.makeSlice(types.Typ[types.Uint8], n, n)
	}
	_ = token.NoPos
}
