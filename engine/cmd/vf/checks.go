package main

type harnessRef struct {
	Pkg string // key of pkgs
	Fn  string
	// limits per tier (0 = none)
	QuickSecs, ThoroughSecs int
}

type checkDef struct {
	ID        string
	Harnesses []harnessRef
}

var checks = []checkDef{}

func cmdCheck(args []string) int { return 2 }
