//go:build !verif

package updog

// Declarations for the symbolic engine, which loads the tree without the verif tag and
// intercepts these functions by name (bodies never run). The native implementations are in
// zz_verif_hooks.go (tag verif).

func verifCrashRecord(path string)                     {}
func verifCommitCount(path string) int                 { return 0 }
func verifRestoreCommit(src string, i int, dst string) {}
