//go:build verif

package updog

import (
	"encoding/hex"
	"fmt"
	"os"
)

// Native replays only (the engine loads the tree without the tag): counterexamples found
// with an abstract hash carry the hash value per hashed byte string; feed them to the real
// code through the verif-tagged hook.
func init() {
	VerifHashOverride = func(b []byte) (uint64, bool) {
		v, ok := verifHashes[hex.EncodeToString(b)]
		return v, ok
	}
}

// ---- crash-point recording for C06 (native): snapshot the output file after every commit

var verifSnaps = map[string][]string{}

func verifCrashRecord(path string) {
	verifSnaps[path] = nil
	VerifPoint = func(name string) {
		if name != "writer.commit" && name != "bigwriter.commit" {
			return
		}
		b, err := os.ReadFile(path)
		if err != nil {
			panic(err)
		}
		snap := fmt.Sprintf("%s.commit%d", path, len(verifSnaps[path])+1)
		if err := os.WriteFile(snap, b, 0644); err != nil {
			panic(err)
		}
		verifSnaps[path] = append(verifSnaps[path], snap)
	}
}

// state 0 is the freshly initialised database file (no commit of the writer yet)
func verifCommitCount(path string) int { return 1 + len(verifSnaps[path]) }

func verifRestoreCommit(src string, i int, dst string) {
	os.Remove(dst)
	if i == 0 {
		verifMakeFile(dst, 3)
		return
	}
	b, err := os.ReadFile(verifSnaps[src][i-1])
	if err != nil {
		panic(err)
	}
	if err := os.WriteFile(dst, b, 0644); err != nil {
		panic(err)
	}
}
