package sym

import (
	"go/token"
)

// encoding/csv stub: a ghost file's CSV content is a list of records registered by the
// harness (verifCSV) plus an optional position at which reading fails. Read obeys csv's
// contract: records in order, io.EOF at the end, a record whose field count differs from
// the first one is returned together with ErrFieldCount.

type csvFile struct {
	records [][]Str
	errAt   int // index of the record before which a parse error is reported; -1 = none
}

type csvReader struct {
	path   string
	pos    int
	fields int
}

func (p *Program) installCSV() {
	in := p.intrinsics
	v := p.verifIntrinsics
	v["verifCSV"] = func(fr *frame, a []Value) Value {
		m := fr.m
		path := a[0].(Str).Concrete()
		recs := a[1].(Slice)
		cf := &csvFile{errAt: m.concreteInt(a[2], "csv error position")}
		for i := 0; i < recs.len; i++ {
			rec := (*recs.At(i)).(Slice)
			var r []Str
			for j := 0; j < rec.len; j++ {
				r = append(r, (*rec.At(j)).(Str))
			}
			cf.records = append(cf.records, r)
		}
		if m.csvFiles == nil {
			m.csvFiles = map[string]*csvFile{}
		}
		m.csvFiles[path] = cf
		g := m.ghost(path)
		g.kind = 2
		g.gen++
		return nil
	}
	in["encoding/csv.NewReader"] = func(fr *frame, a []Value) Value {
		m := fr.m
		it := a[0].(Iface)
		fp, ok := it.v.(*Value)
		if !ok || fp == nil {
			unsupportedf("csv.NewReader on %v", it.t)
		}
		path, ok := m.openFiles[fp]
		if !ok {
			unsupportedf("csv.NewReader on a reader that is not a ghost file")
		}
		var cell Value = Opaque{kind: "csvreader", v: &csvReader{path: path, fields: -1}}
		return &cell
	}
	in["(*encoding/csv.Reader).Read"] = func(fr *frame, a []Value) Value {
		m := fr.m
		p := a[0].(*Value)
		if p == nil {
			m.runtimePanic(fr, token.NoPos, "invalid memory address or nil pointer dereference")
		}
		r := (*p).(Opaque).v.(*csvReader)
		cf := m.csvFiles[r.path]
		if cf == nil {
			// an existing file without registered CSV content: empty
			return Tuple{Slice{}, m.ioEOF()}
		}
		if cf.errAt >= 0 && r.pos == cf.errAt {
			r.pos++
			return Tuple{Slice{}, m.mkError("parse error on line " + itoa(r.pos) + ": bare \" in non-quoted-field (csv stub)")}
		}
		idx := r.pos
		if cf.errAt >= 0 && r.pos > cf.errAt {
			idx = r.pos - 1
		}
		if idx >= len(cf.records) {
			return Tuple{Slice{}, m.ioEOF()}
		}
		r.pos++
		rec := cf.records[idx]
		b := &Backing{v: make([]Value, len(rec)), esize: 16}
		for i, f := range rec {
			b.v[i] = f
		}
		out := Slice{a: b, len: len(rec), cap: len(rec)}
		if r.fields < 0 {
			r.fields = len(rec)
		} else if len(rec) != r.fields {
			return Tuple{out, m.mkError("record on line " + itoa(r.pos) + ": wrong number of fields")}
		}
		return Tuple{out, Iface{}}
	}
}

func itoa(n int) string {
	if n == 0 {
		return "0"
	}
	s := ""
	for n > 0 {
		s = string(rune('0'+n%10)) + s
		n /= 10
	}
	return s
}
