package sym

import (
	"fmt"
	"go/token"
	"go/types"
	"strconv"
	"strings"
	"unicode"
	"unicode/utf8"
)

func (p *Program) installFmtStrings() {
	in := p.intrinsics

	in["fmt.Sprintf"] = func(fr *frame, a []Value) Value {
		return fr.m.sprintf(fr, a[0].(Str), variadic(a[1]))
	}
	in["fmt.Errorf"] = func(fr *frame, a []Value) Value {
		m := fr.m
		args := variadic(a[1])
		msg := m.sprintf(fr, a[0].(Str), args)
		f := a[0].(Str).Concrete()
		if i := strings.Index(f, "%w"); i >= 0 {
			// find which argument %w refers to
			k := 0
			for j := 0; j+1 < len(f); j++ {
				if f[j] == '%' {
					if f[j+1] == '%' {
						j++
						continue
					}
					if f[j+1] == 'w' {
						break
					}
					k++
				}
			}
			if k < len(args) {
				if werr, ok := args[k].(Iface); ok && werr.t != nil {
					var cell Value = Struct{msg, werr}
					return Iface{t: m.P.wrapErrorPtr, v: &cell}
				}
			}
		}
		return m.mkErrorStr(msg)
	}
	in["fmt.Sprint"] = func(fr *frame, a []Value) Value {
		m := fr.m
		var out Str
		args := variadic(a[0])
		for i, x := range args {
			if i > 0 {
				// Sprint adds spaces between operands when neither is a string
				_, s1 := unwrapIface(args[i-1]).(Str)
				_, s2 := unwrapIface(x).(Str)
				if !s1 && !s2 {
					out = StrConcat(out, MkStr(" "))
				}
			}
			out = StrConcat(out, m.fmtValue(fr, x, 'v'))
		}
		return out
	}
	in["fmt.Fprintf"] = func(fr *frame, a []Value) Value {
		m := fr.m
		s := m.sprintf(fr, a[1].(Str), variadic(a[2]))
		w := a[0].(Iface)
		b := strToByteSlice(s)
		if r, ok := m.callMethod(fr, w, "Write", b); ok {
			return r
		}
		unsupportedf("Fprintf to %v", w.t)
		return nil
	}
	in["fmt.Printf"] = func(fr *frame, a []Value) Value { return Tuple{K(64, 0), Iface{}} }
	in["fmt.Println"] = func(fr *frame, a []Value) Value { return Tuple{K(64, 0), Iface{}} }
	in["fmt.Print"] = func(fr *frame, a []Value) Value { return Tuple{K(64, 0), Iface{}} }
	in["fmt.Fprintln"] = func(fr *frame, a []Value) Value { return Tuple{K(64, 0), Iface{}} }
	in["fmt.Fprint"] = func(fr *frame, a []Value) Value { return Tuple{K(64, 0), Iface{}} }

	// ---- strings
	in["strings.ReplaceAll"] = func(fr *frame, a []Value) Value {
		return fr.m.replaceAll(a[0].(Str), a[1].(Str), a[2].(Str))
	}
	in["strings.ContainsRune"] = func(fr *frame, a []Value) Value {
		s := a[0].(Str)
		r := a[1].(*Term)
		if !s.IsConcrete() {
			unsupportedf("ContainsRune on symbolic string")
		}
		// symbolic rune against a concrete set: disjunction (ASCII sets only)
		res := falseT
		for _, c := range s.Concrete() {
			res = BOr(res, Cmp(OpEq, r, K(32, uint64(c))))
		}
		return res
	}
	in["strings.Count"] = func(fr *frame, a []Value) Value {
		s, sub := a[0].(Str), a[1].(Str)
		if s.IsConcrete() && sub.IsConcrete() {
			return K(64, uint64(strings.Count(s.Concrete(), sub.Concrete())))
		}
		if sub.IsConcrete() && sub.Len() == 1 {
			c := K(64, 0)
			b := K(8, uint64(sub.Concrete()[0]))
			for i := 0; i < s.Len(); i++ {
				c = Bin(OpAdd, c, Ite(Cmp(OpEq, s.Byte(i), b), K(64, 1), K(64, 0)))
			}
			return c
		}
		unsupportedf("strings.Count symbolic")
		return nil
	}
	in["strings.LastIndex"] = func(fr *frame, a []Value) Value {
		s, sub := a[0].(Str), a[1].(Str)
		if s.IsConcrete() && sub.IsConcrete() {
			return K(64, uint64(int64(strings.LastIndex(s.Concrete(), sub.Concrete()))))
		}
		if sub.IsConcrete() && sub.Len() == 1 {
			b := K(8, uint64(sub.Concrete()[0]))
			r := K(64, ^uint64(0))
			for i := 0; i < s.Len(); i++ {
				r = Ite(Cmp(OpEq, s.Byte(i), b), K(64, uint64(i)), r)
			}
			return r
		}
		unsupportedf("strings.LastIndex symbolic")
		return nil
	}
	in["strings.Join"] = func(fr *frame, a []Value) Value {
		s := a[0].(Slice)
		sep := a[1].(Str)
		var out Str
		for i := 0; i < s.len; i++ {
			if i > 0 {
				out = StrConcat(out, sep)
			}
			out = StrConcat(out, (*s.At(i)).(Str))
		}
		return out
	}
	in["strings.ToLower"] = func(fr *frame, a []Value) Value { return fr.m.toLower(a[0].(Str)) }
	in["strings.Map"] = func(fr *frame, a []Value) Value { return fr.m.stringsMap(fr, a[0], a[1].(Str)) }
	in["strings.Index"] = func(fr *frame, a []Value) Value {
		s, sub := a[0].(Str), a[1].(Str)
		if s.IsConcrete() && sub.IsConcrete() {
			return K(64, uint64(int64(strings.Index(s.Concrete(), sub.Concrete()))))
		}
		unsupportedf("strings.Index symbolic")
		return nil
	}
	in["strings.IndexByte"] = func(fr *frame, a []Value) Value {
		s := a[0].(Str)
		b := a[1].(*Term)
		r := K(64, ^uint64(0))
		for i := s.Len() - 1; i >= 0; i-- {
			r = Ite(Cmp(OpEq, s.Byte(i), b), K(64, uint64(i)), r)
		}
		return r
	}
	// ---- strings.Builder: buf kept in the real field
	bufOf := func(fr *frame, recv Value) *Value {
		p := recv.(*Value)
		if p == nil {
			fr.m.runtimePanic(fr, token.NoPos, "invalid memory address or nil pointer dereference")
		}
		st := (*p).(Struct)
		return &st[1]
	}
	in["(*strings.Builder).WriteString"] = func(fr *frame, a []Value) Value {
		b := bufOf(fr, a[0])
		s := a[1].(Str)
		var add []Value
		for _, t := range s.Terms() {
			add = append(add, t)
		}
		*b = fr.m.appendSlice((*b).(Slice), add, types.Typ[types.Byte])
		return Tuple{K(64, uint64(s.Len())), Iface{}}
	}
	in["(*strings.Builder).Write"] = func(fr *frame, a []Value) Value {
		b := bufOf(fr, a[0])
		s := a[1].(Slice)
		var add []Value
		for i := 0; i < s.len; i++ {
			add = append(add, *s.At(i))
		}
		*b = fr.m.appendSlice((*b).(Slice), add, types.Typ[types.Byte])
		return Tuple{K(64, uint64(s.len)), Iface{}}
	}
	in["(*strings.Builder).WriteByte"] = func(fr *frame, a []Value) Value {
		b := bufOf(fr, a[0])
		*b = fr.m.appendSlice((*b).(Slice), []Value{a[1]}, types.Typ[types.Byte])
		return Iface{}
	}
	in["(*strings.Builder).WriteRune"] = func(fr *frame, a []Value) Value {
		b := bufOf(fr, a[0])
		r := a[1].(*Term)
		if !r.IsConst() {
			unsupportedf("Builder.WriteRune symbolic")
		}
		enc := utf8.AppendRune(nil, rune(sx(r.val, r.w)))
		var add []Value
		for _, c := range enc {
			add = append(add, K(8, uint64(c)))
		}
		*b = fr.m.appendSlice((*b).(Slice), add, types.Typ[types.Byte])
		return Tuple{K(64, uint64(len(enc))), Iface{}}
	}
	in["(*strings.Builder).String"] = func(fr *frame, a []Value) Value {
		b := bufOf(fr, a[0])
		return StrFromTerms(sliceTerms((*b).(Slice)))
	}
	in["(*strings.Builder).Len"] = func(fr *frame, a []Value) Value {
		b := bufOf(fr, a[0])
		return K(64, uint64((*b).(Slice).len))
	}
	in["(*strings.Builder).Reset"] = func(fr *frame, a []Value) Value {
		b := bufOf(fr, a[0])
		*b = Slice{}
		return nil
	}
	in["(*strings.Builder).Grow"] = func(fr *frame, a []Value) Value { return nil }
}

func variadic(v Value) []Value {
	s := v.(Slice)
	out := make([]Value, s.len)
	for i := 0; i < s.len; i++ {
		out[i] = *s.At(i)
	}
	return out
}

func unwrapIface(v Value) Value {
	if i, ok := v.(Iface); ok {
		return i.v
	}
	return v
}

func strToByteSlice(s Str) Slice {
	ts := s.Terms()
	b := &Backing{v: make([]Value, len(ts)), esize: 1}
	for i, t := range ts {
		b.v[i] = t
	}
	return Slice{a: b, len: len(ts), cap: len(ts)}
}

// sprintf implements the subset of fmt verbs the code under analysis uses.
func (m *Machine) sprintf(fr *frame, format Str, args []Value) Str {
	if !format.IsConcrete() {
		return m.sprintfSym(fr, format, args)
	}
	f := format.Concrete()
	var out Str
	lit := strings.Builder{}
	flush := func() {
		if lit.Len() > 0 {
			out = StrConcat(out, MkStr(lit.String()))
			lit.Reset()
		}
	}
	ai := 0
	for i := 0; i < len(f); i++ {
		c := f[i]
		if c != '%' {
			lit.WriteByte(c)
			continue
		}
		i++
		if i >= len(f) {
			lit.WriteString("%!(NOVERB)")
			break
		}
		// skip flags/width (not used by the repo with symbolic operands)
		for i < len(f) && strings.IndexByte("+-# 0123456789.", f[i]) >= 0 {
			i++
		}
		verb := f[i]
		if verb == '%' {
			lit.WriteByte('%')
			continue
		}
		if ai >= len(args) {
			lit.WriteString("%!" + string(verb) + "(MISSING)")
			continue
		}
		flush()
		out = StrConcat(out, m.fmtValue(fr, args[ai], verb))
		ai++
	}
	flush()
	return out
}

// sprintfSym handles a format string with symbolic bytes (a caller that builds its format
// from data): each symbolic byte is either an ordinary character or '%' (a fork); a '%'
// followed by a symbolic byte is "%%" or a verb (a fork). Verbs given by symbolic bytes are
// supported when no operand is left for them ("%!v(MISSING)"); flags, widths, non-ASCII
// verbs and symbolic verbs that consume an operand end the path as unsupported.
func (m *Machine) sprintfSym(fr *frame, format Str, args []Value) Str {
	f := format.Terms()
	var out []*Term
	lit := func(s string) {
		for i := 0; i < len(s); i++ {
			out = append(out, K(8, uint64(s[i])))
		}
	}
	isPct := func(t *Term) bool {
		if t.IsConst() {
			return t.val == '%'
		}
		return m.branch(Cmp(OpEq, t, K(8, '%')))
	}
	ai := 0
	for i := 0; i < len(f); i++ {
		c := f[i]
		if !isPct(c) {
			out = append(out, c)
			continue
		}
		i++
		if i >= len(f) {
			lit("%!(NOVERB)")
			break
		}
		v := f[i]
		if isPct(v) {
			out = append(out, K(8, '%'))
			continue
		}
		if v.IsConst() {
			if strings.IndexByte("+-# 0123456789.[]*", byte(v.val)) >= 0 || v.val >= 0x80 {
				unsupportedf("symbolic format string with flags, width or a non-ASCII verb")
			}
			if ai < len(args) {
				out = append(out, m.fmtValue(fr, args[ai], byte(v.val)).Terms()...)
				ai++
				continue
			}
		} else {
			plain := Cmp(OpUlt, v, K(8, 0x80))
			for _, fc := range []byte("+-# 0123456789.[]*") {
				plain = BAnd(plain, BNot(Cmp(OpEq, v, K(8, uint64(fc)))))
			}
			if !m.branch(plain) {
				unsupportedf("symbolic format string with flags, width or a non-ASCII verb")
			}
			if ai < len(args) {
				unsupportedf("symbolic verb consuming an operand")
			}
		}
		lit("%!")
		out = append(out, v)
		lit("(MISSING)")
	}
	if ai < len(args) {
		unsupportedf("symbolic format string with surplus operands")
	}
	return StrFromTerms(out)
}

func (m *Machine) fmtValue(fr *frame, v Value, verb byte) Str {
	var typ types.Type
	if it, ok := v.(Iface); ok {
		if it.t == nil {
			return MkStr("<nil>")
		}
		typ = it.t
		if verb != 'd' && verb != 'c' && verb != 'x' {
			if r, ok := m.callMethod(fr, it, "Error"); ok {
				return m.fmtStrVerb(r.(Str), verb)
			}
			if r, ok := m.callMethod(fr, it, "String"); ok {
				return m.fmtStrVerb(r.(Str), verb)
			}
		}
		v = it.v
	}
	switch x := v.(type) {
	case Str:
		return m.fmtStrVerb(x, verb)
	case *Term:
		if x.w == 0 {
			if x.IsConst() {
				return MkStr(strconv.FormatBool(x.val == 1))
			}
			if m.branch(x) {
				return MkStr("true")
			}
			return MkStr("false")
		}
		signed := true
		if typ != nil {
			signed = signedOf(typ)
		}
		switch verb {
		case 'c':
			if x.IsConst() {
				return MkStr(string(rune(sx(x.val, x.w))))
			}
			m.noteOnce("approx: %c of a symbolic rune rendered as '?' (error-message text only)")
			return MkStr("?")
		case 'q':
			if x.IsConst() {
				return MkStr(strconv.QuoteRune(rune(sx(x.val, x.w))))
			}
			return MkStr("'?'")
		case 'x':
			if x.IsConst() {
				return MkStr(strconv.FormatUint(x.val, 16))
			}
			unsupportedf("%%x of symbolic integer")
		}
		return m.decimal(x, signed)
	case Slice:
		if verb == 's' || verb == 'v' {
			if x.a != nil && x.a.esize == 1 {
				if verb == 's' {
					return StrFromTerms(sliceTerms(x))
				}
			}
		}
		if verb == 'v' || verb == 's' || verb == 'd' {
			// fmt prints a slice as its elements, blank-separated, in brackets
			out := MkStr("[")
			for i := 0; i < x.len; i++ {
				if i > 0 {
					out = StrConcat(out, MkStr(" "))
				}
				out = StrConcat(out, m.fmtValue(fr, *x.At(i), verb))
			}
			return StrConcat(out, MkStr("]"))
		}
		m.noteOnce("approx: slice formatted with verb " + string(verb) + " rendered in the engine's own notation (message text only)")
		return MkStr(showValue(x))
	case *Value:
		m.noteOnce("approx: pointer formatted as a fixed address (message text only)")
		return MkStr("0xc000000000")
	case Opaque:
		return MkStr(fmt.Sprint(x.v))
	}
	m.noteOnce("approx: composite value rendered in the engine's own notation (message text only)")
	return MkStr(showValue(v))
}

func (m *Machine) fmtStrVerb(s Str, verb byte) Str {
	switch verb {
	case 'q':
		if s.IsConcrete() {
			return MkStr(strconv.Quote(s.Concrete()))
		}
		m.noteOnce("approx: %q of a symbolic string rendered without escaping (error-message text only)")
		return StrConcat(StrConcat(MkStr(`"`), s), MkStr(`"`))
	}
	return s
}

// decimal renders an integer term in base 10. For symbolic terms the number of digits is
// decided by forking; each digit is then a udiv/urem term.
func (m *Machine) decimal(x *Term, signed bool) Str {
	if x.IsConst() {
		if signed {
			return MkStr(strconv.FormatInt(sx(x.val, x.w), 10))
		}
		return MkStr(strconv.FormatUint(x.val, 10))
	}
	w := int(x.w)
	neg := false
	mag := x
	if signed {
		if m.branch(Cmp(OpSlt, x, K(w, 0))) {
			neg = true
			mag = Neg(x)
		}
	}
	// digits: smallest d with mag < 10^d
	maxDigits := len(strconv.FormatUint(mask(uint8(w)), 10))
	d := maxDigits
	pow := uint64(10)
	for k := 1; k < maxDigits; k++ {
		if m.branch(Cmp(OpUlt, mag, K(w, pow))) {
			d = k
			break
		}
		pow *= 10
	}
	ts := make([]*Term, 0, d+1)
	if neg {
		ts = append(ts, K(8, '-'))
	}
	div := uint64(1)
	for k := 1; k < d; k++ {
		div *= 10
	}
	for k := 0; k < d; k++ {
		q := Bin(OpUDiv, mag, K(w, div))
		dig := Bin(OpURem, q, K(w, 10))
		ts = append(ts, Bin(OpAdd, Extract(dig, 0, 8), K(8, '0')))
		div /= 10
	}
	return StrFromTerms(ts)
}

// replaceAll implements strings.ReplaceAll for concrete old/new patterns on a possibly
// symbolic subject by forking on each match position.
func (m *Machine) replaceAll(s, old, nw Str) Str {
	if s.IsConcrete() && old.IsConcrete() && nw.IsConcrete() {
		return MkStr(strings.ReplaceAll(s.Concrete(), old.Concrete(), nw.Concrete()))
	}
	if !old.IsConcrete() || old.Len() == 0 {
		unsupportedf("ReplaceAll with symbolic/empty pattern")
	}
	o := old.Concrete()
	var out Str
	i := 0
	n := s.Len()
	for i < n {
		if i+len(o) <= n {
			match := trueT
			for j := 0; j < len(o); j++ {
				match = BAnd(match, Cmp(OpEq, s.Byte(i+j), K(8, uint64(o[j]))))
			}
			if m.branch(match) {
				out = StrConcat(out, nw)
				i += len(o)
				continue
			}
		}
		out = StrConcat(out, s.Sub(i, i+1))
		i++
	}
	return out
}

func (m *Machine) toLower(s Str) Str {
	if s.IsConcrete() {
		return MkStr(strings.ToLower(s.Concrete()))
	}
	// symbolic: exact for ASCII; a non-ASCII byte leaves the bound
	ts := make([]*Term, s.Len())
	for i := range ts {
		b := s.Byte(i)
		if !m.branch(Cmp(OpUlt, b, K(8, 0x80))) {
			m.end(EndOutOfBound, "strings.ToLower on symbolic non-ASCII byte")
		}
		isUp := BAnd(Cmp(OpUle, K(8, 'A'), b), Cmp(OpUle, b, K(8, 'Z')))
		ts[i] = Ite(isUp, Bin(OpAdd, b, K(8, 32)), b)
	}
	return StrFromTerms(ts)
}

func (m *Machine) stringsMap(fr *frame, f Value, s Str) Str {
	if s.IsConcrete() {
		var out []byte
		for _, r := range s.Concrete() {
			res := m.call(fr, token.NoPos, f, []Value{K(32, uint64(r))}).(*Term)
			if !res.IsConst() {
				unsupportedf("strings.Map closure returned symbolic rune")
			}
			rr := rune(sx(res.val, 32))
			if rr >= 0 {
				out = utf8.AppendRune(out, rr)
			}
		}
		return MkStr(string(out))
	}
	ts := make([]*Term, 0, s.Len())
	for i := 0; i < s.Len(); i++ {
		b := s.Byte(i)
		if !m.branch(Cmp(OpUlt, b, K(8, 0x80))) {
			m.end(EndOutOfBound, "strings.Map on symbolic non-ASCII byte")
		}
		res := m.call(fr, token.NoPos, f, []Value{Zext(b, 32)}).(*Term)
		// result must be ASCII for a byte-wise rendering
		if !m.branch(Cmp(OpUlt, res, K(32, 0x80))) {
			unsupportedf("strings.Map closure produced non-ASCII/negative rune for symbolic input")
		}
		ts = append(ts, Extract(res, 0, 8))
	}
	return StrFromTerms(ts)
}

var _ = unicode.MaxRune

// canonStr renders a value as a string that is an injective function of its contents
// (strings with symbolic bytes stay symbolic): the stand-in for protobuf's text form, whose
// exact bytes are unspecified by design and only ever serve as a label or a key.
func (m *Machine) canonStr(v Value, depth int) Str {
	if depth > 40 {
		unsupportedf("canonical rendering: nesting too deep")
	}
	switch x := v.(type) {
	case nil:
		return MkStr("nil")
	case *Term:
		if !x.IsConst() {
			if x.w == 0 {
				if m.branch(x) {
					return MkStr("true")
				}
				return MkStr("false")
			}
			return StrConcat(MkStr("#"), m.decimal(x, false))
		}
		return MkStr(fmt.Sprint("#", x.val))
	case Str:
		return StrConcat(StrConcat(MkStr(fmt.Sprintf("s%d:", x.Len())), x), MkStr(";"))
	case *Value:
		if x == nil {
			return MkStr("nil")
		}
		return StrConcat(MkStr("&"), m.canonStr(*x, depth+1))
	case Struct:
		out := MkStr("{")
		for _, f := range x {
			out = StrConcat(StrConcat(out, m.canonStr(f, depth+1)), MkStr(","))
		}
		return StrConcat(out, MkStr("}"))
	case Array:
		out := MkStr("[")
		for _, f := range x {
			out = StrConcat(StrConcat(out, m.canonStr(f, depth+1)), MkStr(","))
		}
		return StrConcat(out, MkStr("]"))
	case Slice:
		out := MkStr(fmt.Sprintf("[%d:", x.len))
		for i := 0; i < x.len; i++ {
			out = StrConcat(StrConcat(out, m.canonStr(*x.At(i), depth+1)), MkStr(","))
		}
		return StrConcat(out, MkStr("]"))
	case Iface:
		if x.t == nil {
			return MkStr("nil")
		}
		return StrConcat(MkStr("("+x.t.String()+")"), m.canonStr(x.v, depth+1))
	}
	unsupportedf("canonical rendering of %T", v)
	return Str{}
}
