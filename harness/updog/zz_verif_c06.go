package updog

import "go.etcd.io/bbolt"

// C06 — index creation is crash-atomic: a partial file is never accepted as an index.
// Crash model: every committed prefix of the writer's transactions (bbolt's atomic commit is
// the trusted contract). 1008 distinct (column,value) pairs cross the 1000-value batch.

func init() {
	verifHarnesses["HarnessC06Crash"] = HarnessC06Crash
}

func verifC06Rows() []map[string]string { return verifC06RowsN(16) }

// verifC06RowsN: 63 rows x ncols columns, every (column,value) pair distinct per row
func verifC06RowsN(ncols int) []map[string]string {
	var rows []map[string]string
	for r := 0; r < 63; r++ {
		m := map[string]string{}
		for c := 0; c < ncols; c++ {
			col := string([]byte{'c', byte('a' + c/26), byte('a' + c%26)})
			m[col] = string([]byte{'v', byte('0' + r/10), byte('0' + r%10)})
		}
		rows = append(rows, m)
	}
	return rows
}

func HarnessC06Crash() {
	path := verifTempPath("c06.updog")
	rows := verifC06Rows()
	ncols := 16
	switch verifChoice("size", 3+2*verifTier()) {
	case 0:
		rows = rows[:3] // a single batch
	case 3:
		// thorough: 2016 values (two full batches and a rest)
		ncols = 32
		rows = verifC06RowsN(ncols)
	case 4:
		// thorough: 1001 rows of one column (1001 values; the big writer also commits its
		// temporary database once on the way)
		ncols = 1
		rows = nil
		for r := 0; r < 1001; r++ {
			rows = append(rows, map[string]string{"caa": string([]byte{'v', byte('0' + r/1000), byte('0' + r/100%10), byte('0' + r/10%10), byte('0' + r%10)})})
		}
	case 2:
		// 5040 values, ~100 KB of keys and bitmaps: several batches and beyond the 64 KiB
		// transaction size tools such as bbolt's Compact use
		ncols = 80
		rows = verifC06RowsN(ncols)
	}
	big := verifBool("big-writer")
	var w verifWriter
	var db, tempDB *bbolt.DB
	if big {
		var err error
		db, err = bbolt.Open(path, 0644, nil)
		if err != nil {
			panic(err)
		}
		tempDB, err = bbolt.Open(verifTempPath("c06.tmp"), 0600, nil)
		if err != nil {
			panic(err)
		}
		bw, err := NewBigIndexWriter(db, tempDB)
		if err != nil {
			panic(err)
		}
		w = bw
	} else {
		w = NewIndexWriter(path)
	}
	for _, r := range rows {
		if _, err := w.AddRow(r); err != nil {
			panic(err)
		}
	}
	verifCrashRecord(path)
	if err := w.Flush(); err != nil {
		panic(err)
	}
	if big {
		tempDB.Close()
		db.Close()
	}
	states := verifCommitCount(path)
	verifAssert(states >= 2, "C06: no commit observed")
	verifReach("flushed")
	j := verifChoice("crash-after", states)
	crashed := verifTempPath("c06_crashed.updog")
	verifRestoreCommit(path, j, crashed)
	preload := verifBool("preload")
	var opts []IndexOption
	if preload {
		opts = append(opts, WithPreloadedData())
	}
	idx, err := OpenIndex(crashed, opts...)
	if err != nil {
		verifAssert(j < states-1, "C06: the completely written index was rejected")
		verifAssert(!verifFlockHeld(crashed), "C06: a rejected partial file stays locked")
		verifReach("end")
		return
	}
	// accepted: it must answer every query exactly as the complete index does
	for ri, r := range rows {
		if ri%4 != 0 && ri != len(rows)-1 {
			continue
		}
		for col, val := range r {
			res, err := idx.Execute(&Query{Expr: &ExprEqual{Column: col, Value: val}})
			verifAssert(err == nil && res.Count == 1, "C06: a partially written file was accepted as an index and misses rows or values")
			if err != nil || res.Count != 1 {
				return
			}
		}
	}
	res, err := idx.Execute(&Query{Expr: &ExprNot{Expr: &ExprEqual{Column: "caa", Value: "nope"}}})
	verifAssert(err == nil && res.Count == uint64(len(rows)), "C06: a partially written file was accepted with a wrong row universe")
	sch := idx.GetSchema()
	verifAssert(len(sch.Columns) == ncols, "C06: a partially written file was accepted with an incomplete schema")
	for _, c := range sch.Columns {
		verifAssert(len(c.Values) == len(rows), "C06: a partially written file was accepted with an incomplete schema")
	}
	idx.Close()
	verifReach("end")
}
