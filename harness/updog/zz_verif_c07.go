package updog

import "github.com/RoaringBitmap/roaring"

// C07 — LRU cache: correct lookups, byte bound, LRU eviction order, counters.
// Histories of Put/Get from the empty cache through the public API only; capacity, keys
// and bitmap sizes are symbolic. Oracle = constraint set (1)–(6) of DESIGN §4 C07, checked
// in a final probe phase.

type verifCounter struct{ n int }

func (c *verifCounter) Inc() { c.n++ }

func init() {
	verifHarnesses["HarnessC07Hist"] = HarnessC07Hist
	verifHarnesses["HarnessC07Metrics"] = HarnessC07Metrics
}

// HarnessC07Metrics: every subset of the four counters configured (the others left nil), a
// cache that keeps everything or nothing, every history of 1..3 operations over two keys:
// no panic, and each configured counter counts exactly its events.
func HarnessC07Metrics() {
	var hit, miss, get, put verifCounter
	m := &CacheMetrics{}
	hasHit, hasMiss, hasGet, hasPut := verifBool("hit-counter"), verifBool("miss-counter"), verifBool("get-counter"), verifBool("put-counter")
	if hasHit {
		m.CacheHit = &hit
	}
	if hasMiss {
		m.CacheMiss = &miss
	}
	if hasGet {
		m.GetCall = &get
	}
	if hasPut {
		m.PutCall = &put
	}
	keepAll := verifBool("keeps-everything")
	capacity := uint64(0)
	if keepAll {
		capacity = ^uint64(0)
	}
	c := NewLRUCache(capacity, WithCacheMetrics(m))
	keys := [2]uint64{7, 1 << 40}
	var stored [2]bool
	wantGet, wantPut, wantHit, wantMiss := 0, 0, 0, 0
	n := 1 + verifChoice("nops", 3)
	for t := 0; t < n; t++ {
		k := verifChoice("keyidx", 2)
		if verifBool("isPut") {
			c.Put(keys[k], verifBitmap(uint64(3+t)))
			wantPut++
			stored[k] = keepAll
		} else {
			_, ok := c.Get(keys[k])
			wantGet++
			verifAssert(ok == stored[k], "C07: a Get on a cache with partly configured counters hits or misses wrongly")
			if stored[k] {
				wantHit++
			} else {
				wantMiss++
			}
		}
	}
	verifAssert(!hasGet || get.n == wantGet, "C07(6): the get counter (configured alone or with others) counts the Get calls exactly")
	verifAssert(!hasPut || put.n == wantPut, "C07(6): the put counter (configured alone or with others) counts the Put calls exactly")
	verifAssert(!hasHit || hit.n == wantHit, "C07(6): the hit counter (configured alone or with others) counts the hits exactly")
	verifAssert(!hasMiss || miss.n == wantMiss, "C07(6): the miss counter (configured alone or with others) counts the misses exactly")
	verifAssert(hasGet || get.n == 0, "C07(6): a counter that was not configured was used")
	verifReach("end")
}

func HarnessC07Hist() {
	nops := 4
	if verifTier() > 0 {
		nops = 5
	}
	const nkeys = 3
	const slack = 256 // generous per-entry overhead allowance (today's accounting: 72)

	capacity := verifU64("cap")
	var hit, miss, get, put verifCounter
	c := NewLRUCache(capacity, WithCacheMetrics(&CacheMetrics{CacheHit: &hit, CacheMiss: &miss, GetCall: &get, PutCall: &put}))

	var keys [nkeys]uint64
	for i := range keys {
		keys[i] = verifU64("key")
	}
	verifAssume(keys[0] != keys[1])
	verifAssume(keys[0] != keys[2])
	verifAssume(keys[1] != keys[2])

	var last [nkeys]*roaring.Bitmap // bitmap last Put under key i
	var lastSize [nkeys]uint64
	var lastUse [nkeys]int // time of last use (Put or Get hit), 0 = never
	wantGet, wantPut, wantHit, wantMiss := 0, 0, 0, 0
	lastOpPut := -1
	alwaysFit := true // at every Put so far, everything stored (latest sizes + slack) fitted

	n := 1 + verifChoice("nops", nops)
	for t := 1; t <= n; t++ {
		k := verifChoice("keyidx", nkeys)
		if verifBool("isPut") {
			bm := verifSizedBitmap("size")
			sz := bm.GetSizeInBytes()
			c.Put(keys[k], bm)
			last[k] = bm
			lastSize[k] = sz
			lastUse[k] = t
			wantPut++
			lastOpPut = k
			var needNow uint64
			for j := 0; j < nkeys; j++ {
				if last[j] != nil {
					needNow += lastSize[j] + slack
				}
			}
			alwaysFit = verifAnd(alwaysFit, needNow <= capacity)
		} else {
			got, ok := c.Get(keys[k])
			wantGet++
			lastOpPut = -1
			if ok {
				wantHit++
				verifAssert(last[k] != nil && got == last[k], "C07(1): a hit returns the bitmap last stored under that key")
				lastUse[k] = t
			} else {
				wantMiss++
				verifAssert(got == nil, "C07(1): a miss returns no bitmap")
			}
		}
	}
	verifReach("history-done")

	// (6) counters
	verifAssert(get.n == wantGet && put.n == wantPut && hit.n == wantHit && miss.n == wantMiss, "C07(6): counters count gets/puts/hits/misses exactly")

	// final probe phase: which keys are retrievable? probe least recently used first so that
	// the probes themselves cannot change which earlier answer is observed (Get never evicts).
	var present [nkeys]bool
	var total uint64
	for k := 0; k < nkeys; k++ {
		got, ok := c.Get(keys[k])
		present[k] = ok
		if ok {
			verifAssert(last[k] != nil && got == last[k], "C07(1): probe hit returns the bitmap last stored under that key")
			total += lastSize[k]
		}
	}
	// (2) byte bound
	verifAssert(total <= capacity, "C07(2): summed size of retrievable bitmaps exceeds the capacity")
	// (3) LRU order: a retrievable key implies every more recently used key is retrievable
	for a := 0; a < nkeys; a++ {
		for b := 0; b < nkeys; b++ {
			if a != b && present[b] && lastUse[a] > lastUse[b] {
				verifAssert(present[a], "C07(3): an entry was evicted although a less recently used one survives")
			}
		}
	}
	// (4) an entry that fits is retrievable right after it was stored
	if lastOpPut >= 0 {
		if lastSize[lastOpPut] <= capacity && capacity-lastSize[lastOpPut] >= slack {
			verifAssert(present[lastOpPut], "C07(4): an entry that fits is not retrievable right after Put")
		}
	}
	// (5) nothing is evicted while everything fits comfortably
	if alwaysFit {
		for k := 0; k < nkeys; k++ {
			if last[k] != nil {
				verifAssert(present[k], "C07(5): an entry was evicted although everything stored fits")
			}
		}
	}
	verifReach("end")
}
