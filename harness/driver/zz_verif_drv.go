package driver

import (
	"context"
	sqldriver "database/sql/driver"
	"io"
	"reflect"

	"github.com/akrennmair/updog"
)

// Shared fixture of the driver harnesses: small concrete datasets chosen by forking, a
// reference evaluator over the rows, and a stand-in for database/sql's row loop.

type drvRow map[string]string

func drvRowKind(k int) drvRow {
	r := drvRow{}
	if k%2 == 0 {
		r["a"] = "x"
	} else {
		r["a"] = "y"
	}
	switch k / 2 {
	case 1:
		r["b"] = "p"
	case 2:
		r["b"] = "q"
	}
	return r
}

// drvData: two forked rows plus one fixed row.
func drvData() []drvRow {
	// the fixed row also has a column that is itself called "count", like the result column
	rows := []drvRow{drvRowKind(verifChoice("row0", 6)), drvRowKind(verifChoice("row1", 6)), {"a": "x", "b": "p", "count": "few"},
		// a value and its extension by a blank (a byte below ',' and most other separators): rows
		// ordered by a joined or escaped key instead of value by value come out in another order
		{"a": "x y", "b": "p"}}
	return rows
}

func drvBuild(path string, rows []drvRow) {
	w := updog.NewIndexWriter(path)
	for _, r := range rows {
		if _, err := w.AddRow(r); err != nil {
			panic(err)
		}
	}
	if err := w.Flush(); err != nil {
		panic(err)
	}
}

type drvQuery struct {
	text    string
	match   func(r drvRow) bool
	groupBy []string
	wantErr bool
	noParse bool     // the text is not a query at all: rejected before anything is executed
	args    []string // bound to $1, $2, ... (nil: the text has no placeholders)
}

type drvGroup struct {
	vals  []string
	count uint64
}

// drvReference computes total count and groups (sorted lexicographically) from the rows.
func drvReference(rows []drvRow, q drvQuery) (total uint64, groups []drvGroup) {
	for _, r := range rows {
		if !q.match(r) {
			continue
		}
		total++
		if len(q.groupBy) == 0 {
			continue
		}
		var vals []string
		ok := true
		for _, c := range q.groupBy {
			v, has := r[c]
			if !has {
				ok = false
				break
			}
			vals = append(vals, v)
		}
		if !ok {
			continue
		}
		found := false
		for i := range groups {
			same := true
			for j := range vals {
				if groups[i].vals[j] != vals[j] {
					same = false
				}
			}
			if same {
				groups[i].count++
				found = true
			}
		}
		if !found {
			groups = append(groups, drvGroup{vals: vals, count: 1})
		}
	}
	for i := 1; i < len(groups); i++ {
		for j := i; j > 0 && drvLess(groups[j].vals, groups[j-1].vals); j-- {
			groups[j], groups[j-1] = groups[j-1], groups[j]
		}
	}
	return total, groups
}

func drvLess(a, b []string) bool {
	for i := range a {
		if a[i] != b[i] {
			return a[i] < b[i]
		}
	}
	return false
}

// drvFetch plays database/sql: Columns, then Next into a slice of that length until io.EOF.
func drvFetch(rows sqldriver.Rows) (cols []string, out [][]sqldriver.Value, err error) {
	cols = rows.Columns()
	for i := 0; i < 64; i++ {
		dest := make([]sqldriver.Value, len(cols))
		e := rows.Next(dest)
		if e == io.EOF {
			return cols, out, rows.Close()
		}
		if e != nil {
			return cols, out, e
		}
		out = append(out, dest)
	}
	return cols, out, nil
}

// drvCheckRows compares what the driver returned with the reference.
func drvCheckRows(tag string, q drvQuery, rows []drvRow, r sqldriver.Rows) {
	cols, got, err := drvFetch(r)
	verifAssert(err == nil, tag+": iterating the rows failed")
	total, groups := drvReference(rows, q)
	verifAssert(len(cols) == len(q.groupBy)+1, tag+": columns must be the group-by columns followed by count")
	if len(cols) != len(q.groupBy)+1 {
		return
	}
	for i, c := range q.groupBy {
		verifAssert(cols[i] == c, tag+": columns must be the group-by columns in order")
	}
	verifAssert(cols[len(cols)-1] == "count", tag+": the last column must be count")
	if t, ok := r.(sqldriver.RowsColumnTypeDatabaseTypeName); ok {
		for i := range q.groupBy {
			verifAssert(t.ColumnTypeDatabaseTypeName(i) == "TEXT", tag+": group-by columns are typed TEXT")
		}
		verifAssert(t.ColumnTypeDatabaseTypeName(len(cols)-1) == "BIGINT", tag+": count is typed BIGINT")
	}
	if t, ok := r.(sqldriver.RowsColumnTypeScanType); ok {
		for i := range q.groupBy {
			verifAssert(t.ColumnTypeScanType(i) == reflect.TypeOf(""), tag+": group-by columns scan into strings")
		}
		verifAssert(t.ColumnTypeScanType(len(cols)-1) == reflect.TypeOf(int64(0)), tag+": count scans into an int64")
	}
	if len(q.groupBy) == 0 {
		verifAssert(len(got) == 1, tag+": without group-by exactly one row holds the total count")
		if len(got) == 1 {
			c, ok := got[0][0].(int64)
			verifAssert(ok && uint64(c) == total, tag+": the single row must hold the total count")
		}
		return
	}
	verifAssert(len(got) == len(groups), tag+": one row per result group (none when no group matches)")
	if len(got) != len(groups) {
		return
	}
	for i, g := range groups {
		for j, v := range g.vals {
			s, ok := got[i][j].(string)
			verifAssert(ok && s == v, tag+": row values must be the group's values in group-by column order, groups in library order")
		}
		c, ok := got[i][len(g.vals)].(int64)
		verifAssert(ok && uint64(c) == g.count, tag+": the last value of a row is the group's count")
	}
}

func drvOpen(d *updogDriver, dsn string) (*fileConn, error) {
	c, err := d.Open(dsn)
	if err != nil {
		return nil, err
	}
	fc, ok := c.(*fileConn)
	if !ok {
		panic("not a file connection")
	}
	return fc, nil
}

var drvCtx = context.Background()
