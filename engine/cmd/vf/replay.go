package main

import (
	"context"
	"encoding/json"
	"fmt"
	"os"
	"os/exec"
	"path/filepath"
	"strings"
	"time"

	"verif/engine/sym"
)

const replayTestTmpl = `package PKGNAME

import (
	"fmt"
	"os"
	"runtime"
	"runtime/debug"
	"strconv"
	"strings"
	"testing"
	"time"
)

// verifStressLoop re-runs a schedule-dependent counterexample on real goroutines until the Go
// scheduler hits a failing interleaving (or the budget is used up).
func verifStressLoop(fn func()) {
	runtime.GOMAXPROCS(8)
	budget, maxIters := 25*time.Second, 20000
	if s := os.Getenv("VERIF_STRESS_SECS"); s != "" {
		if n, err := strconv.Atoi(s); err == nil && n > 0 {
			budget = time.Duration(n) * time.Second
		}
	}
	if s := os.Getenv("VERIF_STRESS_ITERS"); s != "" {
		if n, err := strconv.Atoi(s); err == nil && n > 0 {
			maxIters = n
		}
	}
	deadline := time.Now().Add(budget)
	res := "REPLAY-PASSED"
	iters := 0
	for time.Now().Before(deadline) && iters < maxIters {
		iters++
		verifPos = 0
		ch := make(chan string, 1)
		go func() {
			defer func() {
				if r := recover(); r != nil {
					switch v := r.(type) {
					case verifViolation:
						ch <- "VIOLATION-REPRODUCED: " + v.msg
					case verifDiverged:
						ch <- "REPLAY-DIVERGED: " + v.msg
					default:
						ch <- fmt.Sprintf("VIOLATION-REPRODUCED: PANIC: %v", r)
					}
					return
				}
				ch <- ""
			}()
			fn()
		}()
		var out string
		select {
		case out = <-ch:
		case <-time.After(8 * time.Second):
			out = "VIOLATION-REPRODUCED: HANG: an iteration of the stress loop did not finish within 8 s"
		}
		if strings.Contains(out, "HANG") {
			fmt.Println("VERIF-REPLAY-RESULT: " + out + fmt.Sprintf(" (iteration %d)", iters))
			return
		}
		verifCleanup()
		if out != "" {
			res = out + fmt.Sprintf(" (iteration %d of the stress loop)", iters)
			break
		}
	}
	fmt.Println("VERIF-REPLAY-RESULT: " + res)
}

func TestVerifReplay(t *testing.T) {
	name, err := verifLoad(os.Getenv("VERIF_CEX"))
	if err != nil {
		t.Fatalf("VERIF-REPLAY-RESULT: REPLAY-ERROR: %v", err)
	}
	fn := verifHarnesses[name]
	if fn == nil {
		t.Fatalf("VERIF-REPLAY-RESULT: REPLAY-ERROR: no harness %s", name)
	}
	if verifStress || os.Getenv("VERIF_FORCE_STRESS") != "" {
		verifStressLoop(fn)
		return
	}
	before := runtime.NumGoroutine()
	done := make(chan string, 1)
	go func() {
		defer func() {
			if r := recover(); r != nil {
				switch v := r.(type) {
				case verifViolation:
					done <- "VIOLATION-REPRODUCED: " + v.msg
				case verifDiverged:
					done <- "REPLAY-DIVERGED: " + v.msg
				default:
					done <- fmt.Sprintf("VIOLATION-REPRODUCED: PANIC: %v\n%s", r, debug.Stack())
				}
				return
			}
			done <- "REPLAY-PASSED"
		}()
		fn()
	}()
	var res string
	select {
	case res = <-done:
	case <-time.After(HANGSECS * time.Second):
		res = "VIOLATION-REPRODUCED: HANG: harness did not finish within HANGSECS s"
	}
	if res == "REPLAY-PASSED" {
		leaked := 0
		for i := 0; i < 300; i++ { // up to 3 s: goroutines that are about to exit get their chance
			leaked = runtime.NumGoroutine() - before
			if leaked <= 0 {
				break
			}
			time.Sleep(10 * time.Millisecond)
		}
		if leaked > 0 {
			res = fmt.Sprintf("VIOLATION-REPRODUCED: LEAKED-GOROUTINE: %d goroutine(s) left behind", leaked)
		}
	}
	verifCleanup()
	fmt.Println("VERIF-REPLAY-RESULT: " + res)
}
`

type replayOutcome struct {
	Verdict string // reproduced | passed | diverged | error
	Detail  string
	Output  string
	CexPath string
	Runs    int
}

type cexFile struct {
	Harness string          `json:"harness"`
	Tier    int             `json:"tier"`
	Stress  bool            `json:"stress"`
	Kind    string          `json:"kind"`
	Msg     string          `json:"msg"`
	Pkg     string          `json:"pkg"`
	Nondet  []sym.NondetRec `json:"nondet"`
	Sites   []string        `json:"sites,omitempty"`
}

func writeCex(path string, pi pkgInfo, v *sym.Violation, tier int) error {
	c := cexFile{Harness: v.Harness, Tier: tier, Kind: v.Kind, Msg: v.Msg, Pkg: pi.HarnessDir, Nondet: v.Nondet, Sites: v.Sites, Stress: v.Schedule && v.Kind != "RACE-CANDIDATE" && v.Kind != "SAMPLE"}
	b, err := json.MarshalIndent(c, "", " ")
	if err != nil {
		return err
	}
	return os.WriteFile(path, b, 0644)
}

// replayNative runs the harness natively (real roaring, bbolt, goroutines) on the
// counterexample's inputs.
func replayNative(scratch string, ov map[string]string, pi pkgInfo, v *sym.Violation, tier int, idx int) replayOutcome {
	cex := filepath.Join(scratch, fmt.Sprintf("cex_%s_%d.json", v.Harness, idx))
	if err := writeCex(cex, pi, v, tier); err != nil {
		return replayOutcome{Verdict: "error", Output: err.Error()}
	}
	tries := 1
	if v.Kind == "ASSERT-FAIL" || v.Kind == "PANIC" {
		tries = 3 // Go randomises map iteration order
	}
	if v.Kind == "RACE-CANDIDATE" {
		// confirmed only by the race detector on the real goroutines
		var last replayOutcome
		for i := 0; i < 25; i++ {
			var sites []string
			if i >= 10 {
				// plain runs showed nothing: widen the windows at the two accesses
				sites = v.Sites
				if len(sites) == 0 {
					break
				}
			}
			last = replayCexFileMode(scratch, ov, pi, cex, true, sites)
			last.Runs = i + 1
			if strings.Contains(last.Output, "DATA RACE") {
				last.Verdict = "reproduced"
				last.Detail = "VIOLATION-REPRODUCED: DATA RACE reported by the race detector: " + firstLineAfter(last.Output, "DATA RACE")
				if sites != nil {
					last.Detail += " (with delay injection at " + strings.Join(shortSites(sites), ", ") + ")"
				}
				return last
			}
			if last.Verdict == "error" {
				break
			}
		}
		if last.Verdict == "reproduced" {
			// some other failure reproduced (assertion/panic) while racing
			return last
		}
		last.Verdict = "passed"
		last.Detail = fmt.Sprintf("race detector reported nothing in %d runs", last.Runs)
		return last
	}
	if v.Schedule {
		tries = 2 // schedule-dependent: each run is a stress loop of up to 25 s
	}
	var last replayOutcome
	for i := 0; i < tries; i++ {
		last = replayCexFile(scratch, ov, pi, cex)
		last.Runs = i + 1
		if last.Verdict != "passed" {
			break
		}
	}
	if last.Verdict == "passed" && v.Schedule && len(v.Sites) > 0 {
		// the interleaving did not occur by itself: widen the windows at the statements where
		// the failing schedule switches goroutines
		for i := 0; i < 2; i++ {
			r := replayCexFileMode(scratch, ov, pi, cex, false, v.Sites)
			r.Runs = last.Runs + 1
			if r.Verdict == "error" {
				break
			}
			last = r
			if last.Verdict != "passed" {
				last.Detail += " (with delay injection at " + strings.Join(shortSites(v.Sites), ", ") + ")"
				break
			}
		}
	}
	return last
}

func shortSites(sites []string) []string {
	var out []string
	for _, s := range sites {
		out = append(out, strings.TrimPrefix(s, repoDir+"/"))
	}
	return out
}

func replayCexFile(scratch string, ov map[string]string, pi pkgInfo, cex string) replayOutcome {
	return replayCexFileMode(scratch, ov, pi, cex, false, nil)
}

func firstLineAfter(txt, marker string) string {
	lines := strings.Split(txt, "\n")
	for i, l := range lines {
		if strings.Contains(l, marker) {
			for _, n := range lines[i+1:] {
				n = strings.TrimSpace(n)
				if strings.HasPrefix(n, "/") || strings.Contains(n, ".go:") {
					return n
				}
			}
		}
	}
	return ""
}

func replayCexFileMode(scratch string, ov map[string]string, pi pkgInfo, cex string, race bool, sites []string) replayOutcome {
	hang := "40"
	test := strings.ReplaceAll(strings.Replace(replayTestTmpl, "package PKGNAME", "package "+pi.PkgName, 1), "HANGSECS", hang)
	testReal := filepath.Join(scratch, pi.HarnessDir+"_zz_verif_replay_test.go")
	if err := os.WriteFile(testReal, []byte(test), 0644); err != nil {
		return replayOutcome{Verdict: "error", Output: err.Error()}
	}
	repl := map[string]string{}
	for virt, real := range ov {
		if filepath.Dir(virt) == filepath.Dir(filepath.Join(pi.RepoSub, "x")) {
			repl[filepath.Join(repoDir, virt)] = real
		}
	}
	repl[filepath.Join(repoDir, pi.RepoSub, "zz_verif_replay_test.go")] = testReal
	variant := ""
	if len(sites) > 0 {
		dov, tag, err := delayOverlay(scratch, sites)
		if err != nil {
			return replayOutcome{Verdict: "error", Output: "delay injection: " + err.Error()}
		}
		for k, v := range dov {
			repl[k] = v
		}
		variant = ".delay" + tag
	}
	ob, _ := json.Marshal(map[string]interface{}{"Replace": repl})
	ovPath := filepath.Join(scratch, pi.HarnessDir+variant+"_overlay.json")
	if err := os.WriteFile(ovPath, ob, 0644); err != nil {
		return replayOutcome{Verdict: "error", Output: err.Error()}
	}
	sub := "./" + pi.RepoSub
	if pi.RepoSub == "" {
		sub = "."
	}
	env := append(os.Environ(), "GOFLAGS=-mod=mod", "GOPROXY=off", "GOSUMDB=off", "GOTOOLCHAIN=local", "VERIF_CEX="+cex)
	if race && len(sites) > 0 {
		// race detector + delay injection: repeat the harness within one process
		env = append(env, "VERIF_FORCE_STRESS=1", "VERIF_STRESS_SECS=8", "VERIF_STRESS_ITERS=400")
	}
	bin := filepath.Join(scratch, pi.HarnessDir+variant+".test")
	if race {
		bin = filepath.Join(scratch, pi.HarnessDir+variant+".race.test")
	}
	if _, err := os.Stat(bin); err != nil {
		// build the test binary once per package and run
		bctx, bcancel := context.WithTimeout(context.Background(), 600*time.Second)
		defer bcancel()
		bargs := []string{"test", "-c", "-o", bin, "-vet=off", "-tags", "verif", "-overlay", ovPath}
		if race {
			bargs = append(bargs, "-race")
		}
		bargs = append(bargs, sub)
		build := exec.CommandContext(bctx, "go", bargs...)
		build.Dir = repoDir
		build.Env = env
		if bout, err := build.CombinedOutput(); err != nil {
			os.Remove(bin)
			return replayOutcome{Verdict: "error", Output: "building replay binary failed: " + string(bout)}
		}
	}
	ctx, cancel := context.WithTimeout(context.Background(), 240*time.Second)
	defer cancel()
	cmd := exec.CommandContext(ctx, bin, "-test.run", "^TestVerifReplay$", "-test.timeout", "120s", "-test.v")
	cmd.Dir = filepath.Join(repoDir, pi.RepoSub)
	cmd.Env = env
	out, _ := cmd.CombinedOutput()
	txt := string(out)
	res := replayOutcome{Output: txt, CexPath: cex}
	for _, line := range strings.Split(txt, "\n") {
		if i := strings.Index(line, "VERIF-REPLAY-RESULT: "); i >= 0 {
			r := line[i+len("VERIF-REPLAY-RESULT: "):]
			res.Detail = r
			switch {
			case strings.HasPrefix(r, "VIOLATION-REPRODUCED"):
				res.Verdict = "reproduced"
			case strings.HasPrefix(r, "REPLAY-PASSED"):
				res.Verdict = "passed"
			case strings.HasPrefix(r, "REPLAY-DIVERGED"):
				res.Verdict = "diverged"
			default:
				res.Verdict = "error"
			}
			return res
		}
	}
	switch {
	case strings.Contains(txt, "panic:") || strings.Contains(txt, "fatal error:"):
		res.Verdict = "reproduced"
		res.Detail = "VIOLATION-REPRODUCED: process crashed: " + firstLineWith(txt, "panic:", "fatal error:")
	case strings.Contains(txt, "test timed out"):
		res.Verdict = "reproduced"
		res.Detail = "VIOLATION-REPRODUCED: HANG (test timed out)"
	default:
		res.Verdict = "error"
	}
	return res
}

func firstLineWith(txt string, subs ...string) string {
	for _, line := range strings.Split(txt, "\n") {
		for _, s := range subs {
			if strings.Contains(line, s) {
				return strings.TrimSpace(line)
			}
		}
	}
	return ""
}

func cmdReplay(args []string) int {
	if len(args) < 1 {
		usage()
	}
	b, err := os.ReadFile(args[0])
	if err != nil {
		fmt.Fprintln(os.Stderr, err)
		return 2
	}
	var c cexFile
	if err := json.Unmarshal(b, &c); err != nil {
		fmt.Fprintln(os.Stderr, err)
		return 2
	}
	pi, ok := pkgs[c.Pkg]
	if !ok {
		fmt.Fprintln(os.Stderr, "unknown harness package in counterexample:", c.Pkg)
		return 2
	}
	scratch, _ := os.MkdirTemp("", "vfreplay")
	defer os.RemoveAll(scratch)
	ov, err := harnessOverlay(scratch, []string{c.Pkg})
	if err != nil {
		fmt.Fprintln(os.Stderr, err)
		return 2
	}
	abs, _ := filepath.Abs(args[0])
	out := replayCexFile(scratch, ov, pi, abs)
	if out.Verdict == "passed" && len(c.Sites) > 0 {
		out = replayCexFileMode(scratch, ov, pi, abs, c.Kind == "RACE-CANDIDATE", c.Sites)
		if c.Kind == "RACE-CANDIDATE" && strings.Contains(out.Output, "DATA RACE") {
			out.Verdict = "reproduced"
			out.Detail = "DATA RACE reported by the race detector"
		}
	}
	fmt.Printf("replay verdict: %s\n%s\n", out.Verdict, out.Detail)
	if out.Verdict == "error" {
		fmt.Println(out.Output)
	}
	if out.Verdict == "reproduced" {
		return 1
	}
	return 0
}
