package main

var checks []checkDef

func init() {
	checks = []checkDef{
		{ID: "C07", Harnesses: []harnessRef{{Pkg: "updog", Fn: "HarnessC07Hist"}},
			Bounds: "every Put/Get history of length 1..4 (quick) / 1..5 (thorough) from the empty cache over 3 pairwise distinct symbolic 64-bit keys; capacity any uint64; every Put stores a fresh bitmap whose size ranges over {8} ∪ {even 12..2^20}; counters via CacheMetrics. Outside: longer histories, more than 3 keys, sizes > 1 MiB (uint64 wrap of the size counter), bitmaps mutated after insertion."},
	}
}
