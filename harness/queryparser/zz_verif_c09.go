package queryparser

import (
	proto "github.com/akrennmair/updog/proto/updog/v1"
)

// C09 — the query parser is total and accepts exactly the documented grammar.

func init() {
	verifHarnesses["HarnessC09Smoke"] = HarnessC09Smoke
	verifHarnesses["HarnessC09Bytes"] = HarnessC09Bytes
}

// ---------------------------------------------------------------------------
// reference: tokenizer + recursive-descent recogniser/tree builder for the EBNF in the file
// header of queryparser.go, written independently (no goroutine, whole input consumed).

type refTok struct {
	kind byte // ( ) & | ^ = , ; f(ield) v(alue) p(laceholder) E(OF) X(error)
	text string
	num  int64
}

func refIsSpace(c byte) bool { return c == ' ' || c == '\t' || c == '\r' || c == '\n' }
func refIsAlpha(c byte) bool { return (c >= 'a' && c <= 'z') || (c >= 'A' && c <= 'Z') }
func refIsDigit(c byte) bool { return c >= '0' && c <= '9' }

func refLex(s string) []refTok {
	var out []refTok
	i := 0
	for i < len(s) {
		c := s[i]
		switch {
		case refIsSpace(c):
			i++
		case c == '(' || c == ')' || c == '&' || c == '|' || c == '^' || c == '=' || c == ',' || c == ';':
			out = append(out, refTok{kind: c})
			i++
		case refIsAlpha(c):
			j := i + 1
			for j < len(s) && (refIsAlpha(s[j]) || refIsDigit(s[j]) || s[j] == '_') {
				j++
			}
			out = append(out, refTok{kind: 'f', text: s[i:j]})
			i = j
		case c == '"':
			// value ::= '"' { any-character-except-quote | '""' } '"'
			j := i + 1
			var val []byte
			closed := false
			for j < len(s) {
				if s[j] == '"' {
					if j+1 < len(s) && s[j+1] == '"' {
						val = append(val, '"')
						j += 2
						continue
					}
					closed = true
					j++
					break
				}
				val = append(val, s[j])
				j++
			}
			if !closed {
				out = append(out, refTok{kind: 'X'})
				return out
			}
			out = append(out, refTok{kind: 'v', text: string(val)})
			i = j
		case c == '$':
			j := i + 1
			var n int64
			big := false
			for j < len(s) && refIsDigit(s[j]) {
				n = n*10 + int64(s[j]-'0')
				if n > 1<<40 {
					big = true
					n = 1 << 40
				}
				j++
			}
			if j == i+1 || big || n < 1 || n > 2147483647 {
				out = append(out, refTok{kind: 'X'})
				return out
			}
			out = append(out, refTok{kind: 'p', num: n})
			i = j
		default:
			out = append(out, refTok{kind: 'X'})
			return out
		}
	}
	out = append(out, refTok{kind: 'E'})
	return out
}

type refParser struct {
	toks []refTok
	pos  int
	bad  bool
}

func (p *refParser) peek() byte { return p.toks[p.pos].kind }
func (p *refParser) next() refTok {
	t := p.toks[p.pos]
	if p.pos < len(p.toks)-1 {
		p.pos++
	}
	return t
}

type refExpr struct {
	kind byte // 'e' eq, '^', '&', '|'
	col  string
	val  string
	ph   int64
	kids []*refExpr
}

// expr ::= simple-expr | and-expr | or-expr
func (p *refParser) expr() *refExpr {
	first := p.simple()
	if p.bad {
		return nil
	}
	op := p.peek()
	if op != '&' && op != '|' {
		return first
	}
	kids := []*refExpr{first}
	for p.peek() == op {
		p.next()
		k := p.simple()
		if p.bad {
			return nil
		}
		kids = append(kids, k)
	}
	return &refExpr{kind: op, kids: kids}
}

func (p *refParser) simple() *refExpr {
	switch p.peek() {
	case '(':
		p.next()
		e := p.expr()
		if p.bad {
			return nil
		}
		if p.peek() != ')' {
			p.bad = true
			return nil
		}
		p.next()
		return e
	case '^':
		p.next()
		k := p.simple()
		if p.bad {
			return nil
		}
		return &refExpr{kind: '^', kids: []*refExpr{k}}
	case 'f':
		col := p.next().text
		if p.peek() != '=' {
			p.bad = true
			return nil
		}
		p.next()
		switch p.peek() {
		case 'v':
			return &refExpr{kind: 'e', col: col, val: p.next().text}
		case 'p':
			return &refExpr{kind: 'e', col: col, ph: p.next().num}
		}
	}
	p.bad = true
	return nil
}

// refParse returns the tree and group-by list of a sentence, ok=false otherwise.
func refParse(s string) (e *refExpr, groupBy []string, ok bool) {
	toks := refLex(s)
	if toks[len(toks)-1].kind == 'X' {
		return nil, nil, false
	}
	p := &refParser{toks: toks}
	e = p.expr()
	if p.bad {
		return nil, nil, false
	}
	if p.peek() == ';' {
		p.next()
		if p.peek() != 'f' {
			return nil, nil, false
		}
		groupBy = append(groupBy, p.next().text)
		for p.peek() == ',' {
			p.next()
			if p.peek() != 'f' {
				return nil, nil, false
			}
			groupBy = append(groupBy, p.next().text)
		}
	}
	if p.peek() != 'E' {
		return nil, nil, false
	}
	return e, groupBy, true
}

func refSame(r *refExpr, g *proto.Query_Expression) bool {
	if g == nil {
		return false
	}
	switch v := g.Value.(type) {
	case *proto.Query_Expression_Eq:
		return r.kind == 'e' && v.Eq != nil && v.Eq.Column == r.col && v.Eq.Value == r.val && int64(v.Eq.Placeholder) == r.ph
	case *proto.Query_Expression_Not_:
		return r.kind == '^' && v.Not != nil && refSame(r.kids[0], v.Not.Expr)
	case *proto.Query_Expression_And_:
		if r.kind != '&' || v.And == nil || len(v.And.Exprs) != len(r.kids) {
			return false
		}
		for i := range r.kids {
			if !refSame(r.kids[i], v.And.Exprs[i]) {
				return false
			}
		}
		return true
	case *proto.Query_Expression_Or_:
		if r.kind != '|' || v.Or == nil || len(v.Or.Exprs) != len(r.kids) {
			return false
		}
		for i := range r.kids {
			if !refSame(r.kids[i], v.Or.Exprs[i]) {
				return false
			}
		}
		return true
	}
	return false
}

// verifC09Check runs the real parser on s and compares with the reference.
func verifC09Check(s string) {
	// every loop of parser, lexer and reference is bounded by the (short) input: a loop that
	// runs longer than this does not terminate
	verifMaxLoop(4000)
	pq, err := ParseQuery(s)
	re, rg, ok := refParse(s)
	if !ok {
		verifAssert(err != nil, "C09: accepted an input that is not a sentence of the grammar")
		verifAssert(pq == nil, "C09: an error must come with no query")
		return
	}
	verifAssert(err == nil, "C09: rejected a sentence of the grammar")
	if err != nil {
		return
	}
	verifAssert(pq != nil && refSame(re, pq.Expr), "C09: the tree returned is not the one the grammar prescribes")
	same := pq != nil && len(pq.GroupBy) == len(rg)
	if same {
		for i := range rg {
			if pq.GroupBy[i] != rg[i] {
				same = false
			}
		}
	}
	verifAssert(same, "C09: the group-by list returned differs from the field list of the input")
}

// HarnessC09Smoke pushes the repository's own parser test inputs through both the engine and
// the reference (translator validation; concrete).
func HarnessC09Smoke() {
	inputs := []string{
		`foo = "bar"`, `foo = "bar" & bar = "baz"`, `foo = "bar" & bar = "baz" & baz = "quux"`,
		`foo = "bar" & ( bar = "baz" | baz = "quux" )`, `foo = "bar" | ( bar = "baz" & baz = "quux" )`,
		`^ foo = "bar"`, `^ foo = "bar" & bar = "baz"`, `^ ( foo = "bar" & bar = "baz" )`,
		`foo = "bar" ; bar, baz, quux`, `foo = "foo""bar"`, `foo = $1`, `foo = $1 & bar = $2`,
		`!`, `(a = "b"`, `a = `, `a = "b" ; "c"`, `a = "b" ; c, d, ^`, `a = $fart`, `a ^ "b"`, `b = $0`,
		``, ` `, `a="é"`, "a=\"x\ny\"", `a=$01`, `a = "1" b`,
		// placeholder numbers around the representable range, and beyond 32 and 64 bits
		`a = $2147483647`, `a = $2147483648`, `a = $4294967296`, `a = $4294967297`, `a = $18446744073709551617`, `a = $00000000001`,
		// chains mixing '&' and '|' without parentheses are no sentences
		`a="1" | b="2" & c="3"`, `a="1" & b="2" | c="3"`, `(a="1" | b="2" & c="3")`, `^a="1" & b="2" | c="3" ; d`,
		// field lists naming a column more than once
		`a = "b" ; c, c`, `a = "b" ; c, d, c`,
		// white space other than blank, tab, CR, LF between tokens
		"a = \"b\"\v", "a\f= \"b\"", "a = \"b\" \u00a0& c = \"d\"", "a = \"b\"\u2003",
	}
	verifC09Check(inputs[verifChoice("input", len(inputs))])
	verifReach("end")
}

// HarnessC09Bytes: every input of N symbolic bytes.
func HarnessC09Bytes() {
	maxN := 3
	if verifTier() > 0 {
		maxN = 4
	}
	n := verifChoice("len", maxN+1)
	verifC09Check(verifString("in", n))
	verifReach("end")
}

// ---------------------------------------------------------------------------
// skeleton mode: grammar-derived token sequences with symbolic contents, optionally
// followed by one token-level mutation (drop, duplicate, swap neighbours, insert any token
// kind, append a trailing token) — the mutation classes the property names.

func init() {
	verifHarnesses["HarnessC09Skeleton"] = HarnessC09Skeleton
}

type skTok struct {
	kind byte // ( ) & | ^ = , ; f v p
}

type skGen struct {
	toks   []skTok
	budget int
}

func (g *skGen) emit(k byte) { g.toks = append(g.toks, skTok{k}) }

func (g *skGen) comparison() {
	g.emit('f')
	g.emit('=')
	if verifBool("placeholder") {
		g.emit('p')
	} else {
		g.emit('v')
	}
}

func (g *skGen) simple(depth int) {
	k := 0
	if depth > 0 && len(g.toks) < g.budget {
		k = verifChoice("simple", 3)
	}
	switch k {
	case 0:
		g.comparison()
	case 1:
		g.emit('^')
		g.simple(depth - 1)
	case 2:
		g.emit('(')
		g.expr(depth - 1)
		g.emit(')')
	}
}

func (g *skGen) expr(depth int) {
	g.simple(depth)
	if len(g.toks) >= g.budget {
		return
	}
	op := verifChoice("op", 3)
	if op == 0 {
		return
	}
	c := byte('&')
	if op == 2 {
		c = '|'
	}
	n := 1 + verifChoice("more", 2)
	for i := 0; i < n; i++ {
		g.emit(c)
		g.simple(depth)
	}
}

// non-forking character classes (verifAnd/verifOr build one condition instead of branching)
func skAlpha(c byte) bool {
	return verifOr(verifAnd(c >= 'a', c <= 'z'), verifAnd(c >= 'A', c <= 'Z'))
}
func skDigit(c byte) bool { return verifAnd(c >= '0', c <= '9') }

var skKinds = []byte{'(', ')', '&', '|', '^', '=', ',', ';', 'f', 'v', 'p'}

var skLastMutation int

func skMutate(toks []skTok, kinds int) []skTok {
	n := len(toks)
	skLastMutation = verifChoice("mutation", kinds)
	switch skLastMutation {
	case 0:
		return toks
	case 1: // drop
		i := verifChoice("at", n)
		return append(append([]skTok{}, toks[:i]...), toks[i+1:]...)
	case 2: // duplicate
		i := verifChoice("at", n)
		out := append([]skTok{}, toks[:i+1]...)
		return append(out, toks[i:]...)
	case 3: // swap neighbours
		if n < 2 {
			return toks
		}
		i := verifChoice("at", n-1)
		out := append([]skTok{}, toks...)
		out[i], out[i+1] = out[i+1], out[i]
		return out
	case 4: // insert any token kind anywhere
		i := verifChoice("at", n+1)
		k := skKinds[verifChoice("kind", len(skKinds))]
		out := append([]skTok{}, toks[:i]...)
		out = append(out, skTok{k})
		return append(out, toks[i:]...)
	default: // replace a token by another kind
		i := verifChoice("at", n)
		k := skKinds[verifChoice("kind", len(skKinds))]
		out := append([]skTok{}, toks...)
		out[i] = skTok{k}
		return out
	}
}

// skRender turns tokens into text with symbolic contents. Fields: 1-2 identifier bytes;
// values: 0..maxVal arbitrary bytes between quotes (a quote byte inside is what it is: the
// reference decides what the text means); placeholders: 1-2 symbolic digits (thorough: also a concrete
// prefix at the 32-/64-bit boundaries followed by two symbolic digits); optional white space between tokens.
func skRender(toks []skTok, maxVal int, maxDigits int) string {
	s := ""
	// white-space layouts: none; one blank between all tokens; mixed blanks around/between
	// thorough tier: the third layout goes with the first four mutation classes, the long
	// contents (2-byte value, up to 11 placeholder digits) with unmutated sentences; token
	// insertion and replacement use one layout and the short contents (all combinations
	// together did not finish within 40 minutes)
	layout, variant := 1, 0
	if skLastMutation < 4 {
		layout = verifChoice("layout", 2+verifTier())
		cextra := verifTier()
		if skLastMutation != 0 {
			cextra = 0
		}
		variant = verifChoice("contents", 2+cextra)
	}
	firstF, firstV, firstP := true, true, true
	for i, t := range toks {
		switch layout {
		case 1:
			if i > 0 {
				s += " "
			}
		case 2:
			s += string([]byte{"\t\r\n "[i%4]})
		}
		switch t.kind {
		case 'f':
			n := 1
			isFirst := firstF
			if firstF && variant >= 1 {
				n = 2
			}
			firstF = false
			if !isFirst {
				s += "b" // only the first token of each kind has symbolic content
				continue
			}
			b := verifBytes("f", n)
			if isFirst {
				verifAssume(skAlpha(b[0]))
			} else {
				// the character class of further fields is immaterial: any lower-case letter
				verifAssume(verifAnd(b[0] >= 'a', b[0] <= 'z'))
			}
			if n == 2 {
				verifAssume(verifOr(skAlpha(b[1]), verifOr(skDigit(b[1]), b[1] == '_')))
			}
			s += string(b)
		case 'v':
			n := 1
			if firstV && variant == 1 {
				n = 0
			}
			if firstV && variant == 2 {
				n = maxVal
			}
			if !firstV {
				s += `"w"`
				continue
			}
			firstV = false
			vb := verifBytes("v", n)
			if verifTier() == 0 {
				for _, c := range vb {
					verifAssume(c < 0x80) // quick: ASCII values; thorough: arbitrary bytes
				}
			}
			s += `"` + string(vb) + `"`
		case 'p':
			n := 1
			if firstP && variant == 1 {
				n = 2
			}
			if firstP && variant == 2 {
				n = maxDigits
			}
			if !firstP {
				s += "$2"
				continue
			}
			firstP = false
			prefix := ""
			if n > 2 {
				// long placeholders: a concrete prefix next to the 32- and 64-bit boundaries (or
				// leading zeros) followed by two symbolic digits — 11 symbolic digits make every
				// solver query of the path expensive (the tier did not finish in 40 minutes)
				prefix = []string{"21474836", "42949672", "000000000", "184467440737095516", "99999999"}[verifChoice("placeholder-prefix", 5)]
				n = 2
			}
			b := verifBytes("d", n)
			for _, c := range b {
				verifAssume(skDigit(c))
			}
			s += "$" + prefix + string(b)
		default:
			s += string([]byte{t.kind})
		}
	}
	if layout == 2 {
		s += "\n"
	}
	return s
}

func HarnessC09Skeleton() {
	budget, depth, maxVal, maxDigits := 4, 1, 1, 2
	if verifTier() > 0 {
		maxVal, maxDigits = 2, 11
	}
	g := &skGen{budget: budget}
	g.expr(depth)
	hasGroupBy := verifBool("groupby")
	if hasGroupBy {
		g.emit(';')
		g.emit('f')
		if verifBool("two") {
			g.emit(',')
			g.emit('f')
		}
	}
	_ = hasGroupBy
	kinds := 4 // quick: none, drop, duplicate, swap
	if verifTier() > 0 {
		kinds = 6 // thorough: + insert any token kind anywhere, replace any token by any kind
	}
	toks := skMutate(g.toks, kinds)
	verifC09Check(skRender(toks, maxVal, maxDigits))
	verifReach("end")
}

// HarnessC09Unicode: arbitrary bytes (in particular valid multi-byte UTF-8 sequences) in the
// places where the lexer scans runs of characters: inside a field name after its first
// letter, after a white-space run, inside a placeholder's digits, inside a group-by field.
func init() {
	verifHarnesses["HarnessC09Unicode"] = HarnessC09Unicode
}

func HarnessC09Unicode() {
	// two arbitrary bytes, or three bytes the first of which is the lead byte of a three-byte
	// UTF-8 sequence (the other two arbitrary: valid, overlong, surrogate and broken sequences)
	var x string
	if verifBool("three-bytes") {
		x = verifString("x", 3)
		verifAssume(x[0] >= 0xe0 && x[0] <= 0xef)
	} else {
		x = verifString("x", 2)
	}
	var s string
	switch verifChoice("place", 5) {
	case 0:
		s = "n" + x + `me = "v"`
	case 1:
		s = `a = "v" ` + x + `& b = "w"`
	case 2:
		s = `a = $1` + x
	case 3:
		s = `a = "v" ; g` + x + `, h`
	default:
		s = `a = "v"` + " \t" + x
	}
	verifC09Check(s)
	verifReach("end")
}
