#!/bin/sh
# usage: check.sh <property id> <quick|thorough>
# Rebuilds the engine if needed, then runs the check against /repo's current working tree.
set -e
cd "$(dirname "$0")"
export GOFLAGS=-mod=mod GOPROXY=off GOSUMDB=off GOTOOLCHAIN=local
export VERIF_DIR="$(pwd)"
mkdir -p bin evidence
(cd engine && go build -o ../bin/vf ./cmd/vf) >&2
exec ./bin/vf check "$1" --tier "${2:-quick}"
