package updog

import (
	"bytes"
	"encoding/binary"
	"encoding/gob"
	"os"

	"github.com/RoaringBitmap/roaring"
	"github.com/akrennmair/updog/internal/openfile"
	"go.etcd.io/bbolt"
)

// C15 — opening fails cleanly on non-index files and always releases the file.
// C16 — existing files are never clobbered; reading never modifies the index.

func init() {
	verifHarnesses["HarnessC15Open"] = HarnessC15Open
	verifHarnesses["HarnessC16NoClobber"] = HarnessC16NoClobber
	verifHarnesses["HarnessC16ReadOnly"] = HarnessC16ReadOnly
	verifHarnesses["HarnessC16Race"] = HarnessC16Race
	verifHarnesses["HarnessC16Flags"] = HarnessC16Flags
}

// verifSmallIndex writes a valid two-row index through the real writer.
func verifSmallIndex(path string) {
	w := NewIndexWriter(path)
	w.AddRow(map[string]string{"a": "x", "b": "p"})
	w.AddRow(map[string]string{"a": "y"})
	if err := w.Flush(); err != nil {
		panic(err)
	}
}

// verifReferenceIndex writes the same two rows as verifSmallIndex, but through bbolt directly,
// in the documented layout (bucket "data": 'S' -> gob of the schema, 'I' -> big-endian row
// count, 'V'+8-byte key -> bitmap): an index file that no writer of this build produced, as
// the files written by earlier builds are.
func verifReferenceIndex(path string) {
	db, err := bbolt.Open(path, 0644, nil)
	if err != nil {
		panic(err)
	}
	rows := []map[string]string{{"a": "x", "b": "p"}, {"a": "y"}}
	sch := &schema{Columns: map[string]*column{}}
	bitmaps := map[uint64]*roaring.Bitmap{}
	for id, r := range rows {
		for _, c := range []string{"a", "b"} {
			v, ok := r[c]
			if !ok {
				continue
			}
			k := sch.add(c, v)
			if bitmaps[k] == nil {
				bitmaps[k] = roaring.New()
			}
			bitmaps[k].Add(uint32(id))
		}
	}
	err = db.Update(func(tx *bbolt.Tx) error {
		b, err := tx.CreateBucketIfNotExists([]byte("data"))
		if err != nil {
			return err
		}
		for _, c := range []string{"a", "b"} {
			for _, v := range []string{"p", "x", "y"} {
				k, ok := sch.Columns[c].Values[v]
				if !ok {
					continue
				}
				raw, err := bitmaps[k].ToBytes()
				if err != nil {
					return err
				}
				var key [9]byte
				key[0] = 'V'
				binary.BigEndian.PutUint64(key[1:], k)
				if err := b.Put(key[:], raw); err != nil {
					return err
				}
			}
		}
		var buf bytes.Buffer
		if err := gob.NewEncoder(&buf).Encode(sch); err != nil {
			return err
		}
		if err := b.Put([]byte{'S'}, buf.Bytes()); err != nil {
			return err
		}
		var n [4]byte
		binary.BigEndian.PutUint32(n[:], uint32(len(rows)))
		return b.Put([]byte{'I'}, n[:])
	})
	if err != nil {
		panic(err)
	}
	if err := db.Close(); err != nil {
		panic(err)
	}
}

func verifEdit(path string, f func(b *bbolt.Bucket) error) {
	db, err := bbolt.Open(path, 0644, nil)
	if err != nil {
		panic(err)
	}
	err = db.Update(func(tx *bbolt.Tx) error { return f(tx.Bucket([]byte("data"))) })
	if err != nil {
		panic(err)
	}
	if err := db.Close(); err != nil {
		panic(err)
	}
}

func HarnessC15Open() {
	path := verifTempPath("c15.updog")
	damage := verifChoice("damage", 9)
	needPreload := false
	reject := true
	switch damage {
	case 0: // intact
		verifSmallIndex(path)
		reject = false
	case 1: // a bbolt file without the data bucket
		verifMakeFile(path, 3)
	case 2: // schema missing
		verifSmallIndex(path)
		verifEdit(path, func(b *bbolt.Bucket) error { return b.Delete(keySchema) })
	case 3: // schema undecodable
		verifSmallIndex(path)
		junk := []byte("not a gob stream")
		if verifBool("empty-schema-record") {
			junk = []byte{} // present but empty: nothing to decode is not a schema either
		}
		verifEdit(path, func(b *bbolt.Bucket) error { return b.Put(keySchema, junk) })
	case 4: // row counter missing
		verifSmallIndex(path)
		verifEdit(path, func(b *bbolt.Bucket) error { return b.Delete(keyNextRowID) })
	case 5: // row counter of the wrong length, arbitrary bytes
		verifSmallIndex(path)
		l := []int{0, 1, 2, 3, 5}[verifChoice("counterlen", 5)]
		buf := verifBytes("counter", l)
		verifEdit(path, func(b *bbolt.Bucket) error { return b.Put(keyNextRowID, buf) })
	case 6: // one stored bitmap undecodable: must be rejected when preloading
		verifSmallIndex(path)
		verifEdit(path, func(b *bbolt.Bucket) error {
			c := b.Cursor()
			for k, _ := c.First(); k != nil; k, _ = c.Next() {
				if len(k) == 9 && k[0] == keyPrefixValue[0] {
					return b.Put(append([]byte{}, k...), []byte{1, 2, 3})
				}
			}
			return nil
		})
		if verifBool("odd-key-first") {
			// a key of another length under the same prefix, holding a valid bitmap and sorting
			// before every stored value, does not make the damaged one acceptable
			good, err := roaring.New().ToBytes()
			if err != nil {
				panic(err)
			}
			verifEdit(path, func(b *bbolt.Bucket) error {
				return b.Put(append(append([]byte{}, keyPrefixValue...), make([]byte, 9)...), good)
			})
		}
		needPreload = true
	case 7: // path does not exist
	case 8: // path is a symbolic link to a file that does not exist
		verifMakeFile(path, 4)
	}
	preload := verifBool("preload")
	withCache := verifBool("cache")
	if needPreload && !preload {
		reject = false
	}
	var opts []IndexOption
	if withCache {
		opts = append(opts, WithCache(NewLRUCache(1000)))
	}
	if preload {
		opts = append(opts, WithPreloadedData())
	}
	// the index may also be opened from a database the caller opened itself: Close releases
	// the file all the same
	var idx *Index
	var err error
	if damage == 0 && verifBool("from-callers-database") {
		db, derr := bbolt.Open(path, 0644, nil)
		if derr != nil {
			panic(derr)
		}
		idx, err = OpenIndexFromBoltDatabase(db, opts...)
	} else {
		idx, err = OpenIndex(path, opts...)
	}
	if damage == 7 || damage == 8 {
		verifAssert(err != nil && idx == nil, "C15: opening a path that does not exist must fail")
		verifAssert(verifFileKind(path) == 0 || verifFileKind(path) == 4, "C15: opening a path that does not exist must not create it")
		verifReach("end")
		return
	}
	if err != nil {
		verifAssert(idx == nil, "C15: a failed open returned an index")
		verifAssert(reject, "C15: a complete index was rejected")
		verifAssert(!verifFlockHeld(path), "C15: a failed open left the file locked")
		// opening again must neither block nor succeed
		idx2, err2 := OpenIndex(path, opts...)
		verifAssert(err2 != nil && idx2 == nil, "C15: the second open of a rejected file behaved differently")
		verifAssert(!verifFlockHeld(path), "C15: a failed open left the file locked")
		verifReach("end")
		return
	}
	verifAssert(!reject, "C15: a bbolt file that is not a complete index was accepted")
	verifAssert(idx.Close() == nil, "C15: Close failed")
	verifAssert(idx.Close() == nil, "C15: the second Close failed")
	verifAssert(idx.Close() == nil, "C15: the third Close failed")
	verifAssert(!verifFlockHeld(path), "C15: Close left the file locked")
	idx3, err3 := OpenIndex(path, opts...)
	verifAssert(err3 == nil, "C15: the file cannot be opened again after Close")
	if err3 == nil {
		idx3.Close()
	}
	verifReach("end")
}

// HarnessC16NoClobber: Flush onto an existing path (empty file, arbitrary bytes, bbolt file,
// valid index) fails and leaves the file unchanged.
func HarnessC16NoClobber() {
	path := verifTempPath("c16.updog")
	kind := 1 + verifChoice("existing", 5)
	if kind == 4 {
		verifSmallIndex(path)
	} else {
		verifMakeFile(path, kind) // 5: the path is a directory
	}
	before := verifFileVersion(path)
	w := NewIndexWriter(path)
	n := verifChoice("rows", 3)
	for i := 0; i < n; i++ {
		w.AddRow(map[string]string{"c": "v"})
	}
	// the process may be out of file descriptors while Flush runs (every open fails with
	// EMFILE, whatever the path holds): the existing file must survive that as well
	exhausted := verifBool("descriptors-exhausted")
	if exhausted {
		verifFsFault(true)
	}
	err := w.Flush()
	if exhausted {
		verifFsFault(false)
	}
	verifAssert(err != nil, "C16: Flush onto an existing output path must fail")
	verifAssert(verifFileVersion(path) == before, "C16: Flush changed a pre-existing file")
	// a retry on the same writer, and a second writer, meet the same refusal
	err = w.Flush()
	verifAssert(err != nil, "C16: a repeated Flush onto an existing output path must fail")
	verifAssert(verifFileVersion(path) == before, "C16: a repeated Flush changed a pre-existing file")
	w2 := NewIndexWriter(path)
	w2.AddRow(map[string]string{"d": "w"})
	verifAssert(w2.Flush() != nil, "C16: Flush onto an existing output path must fail")
	verifAssert(verifFileVersion(path) == before, "C16: Flush changed a pre-existing file")
	verifAssert(!verifFlockHeld(path) || kind < 3, "C16: a failed Flush left the file locked")
	verifReach("end")
}

// HarnessC16Race: the output path does not exist when Flush is called, and another process
// creates it (exclusively) at some moment while Flush runs. Whoever comes second must lose:
// if the other process created the file, Flush fails and that file keeps its bytes; otherwise
// Flush succeeds and the file is the index.
func HarnessC16Race() {
	path := verifTempPath("c16race.updog")
	w := NewIndexWriter(path)
	n := 1 + verifChoice("rows", 2)
	for i := 0; i < n; i++ {
		if _, err := w.AddRow(map[string]string{"a": []string{"x", "y"}[i%2]}); err != nil {
			panic(err)
		}
	}
	verifFsAdversary(path)
	err := w.Flush()
	created := verifFsAdversaryStop()
	if created {
		verifAssert(verifFileIsForeign(path), "C16: a file that another process created at the output path while Flush was running was overwritten")
		verifAssert(err != nil, "C16: Flush reported success although the output path was taken by another process")
	} else {
		verifAssert(err == nil, "C16: Flush failed although the output path did not exist")
		idx, oerr := OpenIndex(path)
		verifAssert(oerr == nil, "C16: the flushed index cannot be opened")
		if oerr == nil {
			verifAssert(verifCount(idx, &ExprNot{Expr: &ExprEqual{Column: "a", Value: "nope"}}) == uint64(n), "C16: the flushed index does not hold the rows")
			idx.Close()
		}
	}
	verifReach("end")
}

// HarnessC16ReadOnly: open (any options), query, read the schema, close — the file is unchanged.
func HarnessC16ReadOnly() {
	path := verifTempPath("c16r.updog")
	if verifBool("written-by-another-build") {
		verifReferenceIndex(path) // the documented layout, produced without this build's writers
	} else {
		verifSmallIndex(path)
	}
	before := verifFileVersion(path)
	var opts []IndexOption
	if verifBool("cache") {
		opts = append(opts, WithCache(NewLRUCache(^uint64(0))))
	}
	if verifBool("preload") {
		opts = append(opts, WithPreloadedData())
	}
	idx, err := OpenIndex(path, opts...)
	if err != nil {
		panic(err)
	}
	queries := []*Query{
		{Expr: &ExprEqual{Column: "a", Value: "x"}},
		{Expr: &ExprNot{Expr: &ExprEqual{Column: "a", Value: "x"}}, GroupBy: []string{"a", "b"}},
		{Expr: &ExprOr{Exprs: []Expression{&ExprEqual{Column: "a", Value: "y"}, &ExprEqual{Column: "b", Value: "p"}}}, GroupBy: []string{"b"}},
		{Expr: &ExprAnd{Exprs: []Expression{&ExprEqual{Column: "a", Value: "zz"}}}},
		{Expr: &ExprEqual{Column: "nosuch", Value: "x"}},
		{Expr: &ExprNot{Expr: &ExprEqual{Column: "a", Value: "zz"}}, GroupBy: []string{"a", "b"}}, // several groups of the first column
	}
	n := 1 + verifChoice("nqueries", 3)
	for i := 0; i < n; i++ {
		idx.Execute(queries[verifChoice("query", len(queries))])
		verifAssert(verifFileVersion(path) == before, "C16: querying modified the index file")
	}
	idx.GetSchema()
	verifAssert(verifFileVersion(path) == before, "C16: reading the schema modified the index file")
	idx.Close()
	verifAssert(verifFileVersion(path) == before, "C16: open/query/close modified the index file")
	verifReach("end")
}

// HarnessC16Flags: for arbitrary incoming open flags the exclusive-create opener refuses an
// existing file and the must-exist opener never creates one.
func HarnessC16Flags() {
	const known = os.O_WRONLY | os.O_RDWR | os.O_CREATE | os.O_EXCL | os.O_TRUNC | os.O_APPEND | os.O_SYNC
	flags := verifInt("flags")
	verifAssume(flags&^known == 0)
	verifAssume(flags&(os.O_WRONLY|os.O_RDWR) != os.O_WRONLY|os.O_RDWR)
	existing := verifTempPath("c16f_existing")
	verifMakeFile(existing, 2)
	before := verifFileVersion(existing)
	f, err := openfile.OpenFile(openfile.Options{FailIfFileExists: true})(existing, flags|os.O_CREATE, 0644)
	if f != nil {
		f.Close()
	}
	verifAssert(err != nil, "C16: the exclusive-create opener opened an existing file")
	verifAssert(verifFileVersion(existing) == before, "C16: the exclusive-create opener changed an existing file")
	absent := verifTempPath("c16f_absent")
	if verifBool("dangling-symlink") {
		verifMakeFile(absent, 4)
	}
	f2, err2 := openfile.OpenFile(openfile.Options{FailIfFileDoesntExist: true})(absent, flags, 0644)
	if f2 != nil {
		f2.Close()
	}
	verifAssert(err2 != nil, "C15: the must-exist opener opened a path that does not exist")
	verifAssert(verifFileKind(absent) == 0 || verifFileKind(absent) == 4, "C15: the must-exist opener created the file")
	verifReach("end")
}
