package driver

import (
	"context"
	sqldriver "database/sql/driver"
	"errors"

	"github.com/akrennmair/updog"
	"github.com/akrennmair/updog/internal/convert"
	updogv1 "github.com/akrennmair/updog/proto/updog/v1"
	"google.golang.org/grpc"
)

// C13 (driver half): the grpc:// statement path returns the same rows as the file path.
// The network is replaced by a stub client that answers the way the service is specified to
// (one result per query, in order, converted from the library's result) — the service itself
// is checked in cmd/updog's harnesses.

func init() {
	verifHarnesses["HarnessC13Grpc"] = HarnessC13Grpc
}

type drvStubClient struct {
	idx   *updog.Index
	calls int
	fault int // 0 none, 1 no results, 2 two results, 3 rpc error
}

func (s *drvStubClient) Query(ctx context.Context, in *updogv1.QueryRequest, opts ...grpc.CallOption) (*updogv1.QueryResponse, error) {
	s.calls++
	if s.fault == 3 {
		return nil, errors.New("rpc error: unavailable")
	}
	resp := &updogv1.QueryResponse{}
	for i, q := range in.Queries {
		res, err := s.idx.Execute(convert.ToQuery(q))
		if err != nil {
			return nil, err
		}
		resp.Results = append(resp.Results, convert.ToProtobufResult(res, int32(i+1)))
	}
	switch s.fault {
	case 1:
		resp.Results = nil
	case 2:
		resp.Results = append(resp.Results, resp.Results...)
	}
	return resp, nil
}

func HarnessC13Grpc() {
	rows := drvData()
	path := verifTempPath("c13g.updog")
	drvBuild(path, rows)
	idx, err := updog.OpenIndex(path)
	if err != nil {
		panic(err)
	}
	stub := &drvStubClient{idx: idx, fault: verifChoice("fault", 4)}
	c := &grpcConn{client: stub}
	q := drvQueries[verifChoice("query", len(drvQueries))]
	st, err := c.Prepare(q.text)
	if q.noParse {
		verifAssert(err != nil, "C13: a query text the parser rejects must be rejected by the grpc statement path")
		verifReach("end")
		return
	}
	verifAssert(err == nil, "C13: Prepare on the grpc path failed")
	if err != nil {
		return
	}
	vals := []sqldriver.Value{}
	for _, a := range q.args {
		vals = append(vals, a)
	}
	r, err := st.Query(vals)
	switch {
	case stub.fault != 0 || q.wantErr:
		verifAssert(err != nil, "C13: a failed or malformed RPC answer must surface as an error")
	default:
		verifAssert(err == nil, "C13: a valid query failed on the grpc path")
		if err == nil {
			drvCheckRows("C13 grpc path", q, rows, r)
		}
	}
	verifAssert(stub.calls == 1, "C13: one statement execution is exactly one RPC")
	// the same prepared statement again, with other arguments: the rows of those arguments
	if len(q.args) > 0 && stub.fault == 0 && !q.wantErr {
		vals2 := []sqldriver.Value{}
		args2 := []string{}
		for range q.args {
			vals2 = append(vals2, "y")
			args2 = append(args2, "y")
		}
		q2 := drvQuery{text: q.text, groupBy: q.groupBy, args: args2, match: c13gRebind(q.text)}
		r2, err2 := st.Query(vals2)
		verifAssert(err2 == nil, "C13: a prepared statement on the grpc path failed when executed again")
		if err2 == nil && q2.match != nil {
			drvCheckRows("C13 grpc path, prepared statement executed again with other arguments", q2, rows, r2)
		}
	}
	idx.Close()
	verifReach("end")
}

// c13gRebind: the meaning of the two argument-taking query texts when every argument is "y".
func c13gRebind(text string) func(r drvRow) bool {
	switch text {
	case `a = $1 | b = $1 ; a`:
		return func(r drvRow) bool { return r["a"] == "y" || has(r, "b", "y") }
	case `(a = $2 & b = $1) | a = $2 ; b, a`:
		return func(r drvRow) bool { return r["a"] == "y" }
	}
	return nil
}
