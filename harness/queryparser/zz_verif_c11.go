package queryparser

import (
	proto "github.com/akrennmair/updog/proto/updog/v1"
)

// C11 (structural half): binding replaces every placeholder $n by the n-th argument, changes
// nothing else, and leaves the parsed query untouched.

func init() {
	verifHarnesses["HarnessC11Replace"] = HarnessC11Replace
}

var c11Texts = []string{
	`a = $1`, `a = $1 & b = $2`, `a = $2 | b = $1`, `a = $1 | b = $1`, `a = $3 & ^ ( b = $1 | c = $3 )`,
	`a = "x" & ^ b = $1 ; a, b`, `a = "lit"`, `^ a = $2 & b = $2 & a = $1`,
}

// c11Check walks template and result in parallel.
func c11Check(t, r *proto.Query_Expression, vals []string) bool {
	switch tv := t.Value.(type) {
	case *proto.Query_Expression_Eq:
		rv, ok := r.Value.(*proto.Query_Expression_Eq)
		if !ok || rv.Eq == tv.Eq {
			return false
		}
		if tv.Eq.Placeholder > 0 {
			return verifAnd(rv.Eq.Placeholder == 0, verifAnd(verifStrEq(rv.Eq.Column, tv.Eq.Column), verifStrEq(rv.Eq.Value, vals[tv.Eq.Placeholder-1])))
		}
		return verifAnd(rv.Eq.Placeholder == 0, verifAnd(verifStrEq(rv.Eq.Column, tv.Eq.Column), verifStrEq(rv.Eq.Value, tv.Eq.Value)))
	case *proto.Query_Expression_Not_:
		rv, ok := r.Value.(*proto.Query_Expression_Not_)
		return ok && c11Check(tv.Not.Expr, rv.Not.Expr, vals)
	case *proto.Query_Expression_And_:
		rv, ok := r.Value.(*proto.Query_Expression_And_)
		if !ok || len(rv.And.Exprs) != len(tv.And.Exprs) {
			return false
		}
		res := true
		for i := range tv.And.Exprs {
			res = verifAnd(res, c11Check(tv.And.Exprs[i], rv.And.Exprs[i], vals))
		}
		return res
	case *proto.Query_Expression_Or_:
		rv, ok := r.Value.(*proto.Query_Expression_Or_)
		if !ok || len(rv.Or.Exprs) != len(tv.Or.Exprs) {
			return false
		}
		res := true
		for i := range tv.Or.Exprs {
			res = verifAnd(res, c11Check(tv.Or.Exprs[i], rv.Or.Exprs[i], vals))
		}
		return res
	}
	return false
}

func HarnessC11Replace() {
	text := c11Texts[verifChoice("template", len(c11Texts))]
	tmpl, err := ParseQuery(text)
	if err != nil {
		panic(err)
	}
	pristine, _ := ParseQuery(text)
	// enough arguments for the highest placeholder (3), symbolic contents of 0..2 bytes
	n := 3 + verifChoice("extra-args", 2)
	var vals []string
	for i := 0; i < n; i++ {
		vals = append(vals, verifString("arg", verifChoice("arglen", 2+verifTier())))
	}
	for round := 0; round < 2; round++ {
		got := ReplacePlaceholders(tmpl, vals)
		verifAssert(got != tmpl && got.Expr != tmpl.Expr, "C11: binding must work on a copy of the parsed query")
		verifAssert(c11Check(tmpl.Expr, got.Expr, vals), "C11: binding must replace every placeholder $n by the n-th argument and change nothing else")
		same := len(got.GroupBy) == len(tmpl.GroupBy)
		for i := range tmpl.GroupBy {
			same = same && got.GroupBy[i] == tmpl.GroupBy[i]
		}
		verifAssert(same, "C11: binding changed the group-by list")
		// the template itself is untouched (compare with an independently parsed copy)
		verifAssert(c10Same(tmpl.Expr, pristine.Expr), "C11: binding altered the parsed query it was given")
		// second round with the arguments rotated
		vals = append(vals[1:], vals[0])
	}
	verifReach("end")
}
