package driver

import (
	sqldriver "database/sql/driver"
	"sync"
)

// C17 — sql driver handles survive any open/close/concurrent-use sequence.

func init() {
	verifHarnesses["HarnessC17Seq"] = HarnessC17Seq
	verifHarnesses["HarnessC17Conc"] = HarnessC17Conc
	verifHarnesses["HarnessC17Args"] = HarnessC17Args
	verifHarnesses["HarnessC17CloseFault"] = HarnessC17CloseFault
}

var c17Rows = []drvRow{{"a": "x", "b": "p"}, {"a": "y"}, {"a": "x"}}
var c17RowsB = []drvRow{{"a": "x", "b": "q"}, {"a": "y"}, {"a": "y"}, {"a": "x"}, {"a": "x"}}

func c17Query(tag string, c *fileConn) { c17QueryRows(tag, c, 0, c17Rows) }

func c17QueryN(tag string, c *fileConn, which int) { c17QueryRows(tag, c, which, c17Rows) }

// c17QueryRows: different goroutines send different query texts; rows = the file's data
func c17QueryRows(tag string, c *fileConn, which int, rows []drvRow) {
	// the plain query also asks for a value that does not occur in its column
	q := drvQuery{text: `a = "zz" | a = "x"`, match: isA("x")}
	if which%2 == 1 {
		q = drvQuery{text: `a = "y" ; a`, match: isA("y"), groupBy: []string{"a"}}
	}
	r, err := c.QueryContext(drvCtx, q.text, nil)
	if err != nil {
		verifTrace("query error", err.Error())
	}
	verifAssert(err == nil, tag+": a query on an open handle failed")
	if err == nil {
		drvCheckRows(tag, q, rows, r)
	}
}

// HarnessC17Seq: every sequence of up to 4 (quick) / 5 operations over
// {Open(file1), Open(file2), Open(file1 with options), Query(h), Close(h)}.
func HarnessC17Seq() {
	p1 := verifTempPath("c17a.updog")
	p2 := verifTempPath("c17b.updog")
	if verifBool("relative-paths") {
		// data sources spelled file:name (relative to the working directory)
		verifChdirTemp()
		p1, p2 = "c17a.updog", "c17b.updog"
	}
	drvBuild(p1, c17Rows)
	drvBuild(p2, c17RowsB) // different data: an answer taken from the other file is visible
	// a third file is a bbolt database that is not an index: opening it fails, any number of
	// times, and never blocks this or another data source
	p3 := verifTempPath("c17_notanindex.updog")
	verifMakeFile(p3, 1) // an empty file: bbolt initialises it as a database without the index bucket
	dsns := []string{"file:" + p1 + "?lrucache=true&lrucachesize=4611686018427387904", "file:" + p2 + "?lrucache=true&lrucachesize=4611686018427387904", "file:" + p1 + "?preload=true", "file:" + p3,
		// the first data source spelled with options at their default values and in another order:
		// the same file with the same effective options, usable next to the first spelling
		"file:" + p1 + "?preload=false&lrucachesize=4611686018427387904&lrucache=true"}
	d := newUpdogDriver()
	var open []*fileConn
	var openDSN []int
	nops := 4 + verifTier()
	n := 1 + verifChoice("nops", nops)
	for i := 0; i < n; i++ {
		kind := 0
		if len(open) > 0 {
			kind = verifChoice("op", 3)
		}
		switch kind {
		case 0:
			// the same file under two option strings would be two bbolt handles on one file,
			// which blocks by design (exclusive flock): keep to one option string per file
			which := verifChoice("dsn", len(dsns))
			conflict := false
			for _, o := range openDSN {
				if ((o == 0 || o == 4) && which == 2) || (o == 2 && (which == 0 || which == 4)) {
					conflict = true
				}
			}
			if conflict {
				continue
			}
			c, err := drvOpen(d, dsns[which])
			if which == 3 {
				verifAssert(err != nil && c == nil, "C17: a file that is not an index was opened as a data source")
				continue
			}
			verifAssert(err == nil, "C17: opening a handle failed")
			if err != nil {
				return
			}
			open = append(open, c)
			openDSN = append(openDSN, which)
		case 1:
			h := verifChoice("handle", len(open))
			if openDSN[h] == 1 {
				c17QueryRows("C17", open[h], 0, c17RowsB)
			} else {
				c17QueryRows("C17", open[h], 0, c17Rows)
			}
		case 2:
			h := verifChoice("handle", len(open))
			verifAssert(open[h].Close() == nil, "C17: Close failed")
			open = append(open[:h:h], open[h+1:]...)
			openDSN = append(openDSN[:h:h], openDSN[h+1:]...)
		}
	}
	// close everything: afterwards the files are released and can be opened afresh
	for _, c := range open {
		verifAssert(c.Close() == nil, "C17: Close failed")
	}
	verifAssert(!verifFlockHeld(p1) && !verifFlockHeld(p2), "C17: a file stays locked after its last handle was closed")
	verifAssert(!verifFlockHeld(p3), "C17: a file whose open failed stays locked")
	c, err := drvOpen(d, dsns[0])
	verifAssert(err == nil, "C17: a file cannot be opened again after its last handle was closed")
	if err == nil {
		c17Query("C17 reopened", c)
		c.Close()
	}
	// the released file is replaced by an index with other rows (a nightly rebuild): the same
	// data source, opened again in the same process, answers from the new file
	verifMakeFile(p1, 0)
	drvBuild(p1, c17RowsB)
	c, err = drvOpen(d, dsns[0])
	verifAssert(err == nil, "C17: a rebuilt file cannot be opened through the data source used before")
	if err == nil {
		c17QueryRows("C17 reopened after the file was rebuilt", c, 0, c17RowsB)
		c17QueryRows("C17 reopened after the file was rebuilt", c, 1, c17RowsB)
		c.Close()
	}
	verifReach("end")
}

// HarnessC17Conc: two goroutines using the same data source at once: concurrent first use,
// and one opening while the other closes the last existing handle.
func HarnessC17Conc() {
	p1 := verifTempPath("c17c.updog")
	drvBuild(p1, c17Rows)
	dsn := "file:" + p1
	d := newUpdogDriver()
	scenario := verifChoice("scenario", 2)
	var first *fileConn
	if scenario == 1 {
		c, err := drvOpen(d, dsn)
		if err != nil {
			panic(err)
		}
		first = c
	}
	var wg sync.WaitGroup
	verifPreemptions(2 + verifTier())
	verifSchedule(true)
	verifLockset(true)
	// natively (replay of a schedule-dependent counterexample) more goroutines do the same
	// first use at once, which widens the window the Go scheduler has to hit
	extra := 0
	if !verifSymbolic() && scenario == 0 {
		extra = 14
	}
	wg.Add(2 + extra)
	for i := 0; i < 1+extra; i++ {
		go func(i int) {
			defer wg.Done()
			c, err := drvOpen(d, dsn)
			verifAssert(err == nil, "C17: concurrent open failed")
			if err != nil {
				return
			}
			c17QueryN("C17 concurrent", c, i)
			verifAssert(c.Close() == nil, "C17: Close failed")
		}(i)
	}
	go func() {
		defer wg.Done()
		if scenario == 1 {
			// closes what may be the last handle while the other goroutine opens one
			verifAssert(first.Close() == nil, "C17: Close failed")
			return
		}
		c, err := drvOpen(d, dsn)
		verifAssert(err == nil, "C17: concurrent open failed")
		if err != nil {
			return
		}
		c17QueryN("C17 concurrent", c, 1)
		verifAssert(c.Close() == nil, "C17: Close failed")
	}()
	wg.Wait()
	verifLockset(false)
	verifSchedule(false)
	verifRaceFree("C17: driver handles are used concurrently without a common lock")
	verifAssert(!verifFlockHeld(p1), "C17: the file stays locked after its last handle was closed")
	c, err := drvOpen(d, dsn)
	verifAssert(err == nil, "C17: the file cannot be opened again after its last handle was closed")
	if err == nil {
		c17Query("C17 reopened", c)
		c.Close()
	}
	verifReach("end")
}

// HarnessC17Args: two goroutines run queries with bound arguments on handles of one data source
// (one through a prepared statement, one directly, each with its own arguments) while a third
// opens, queries and closes a handle on another file: every query returns the rows of its own
// arguments, nothing blocks, and there is no data race between the handles.
func HarnessC17Args() {
	p1 := verifTempPath("c17d.updog")
	p2 := verifTempPath("c17e.updog")
	drvBuild(p1, c17Rows)
	drvBuild(p2, c17RowsB)
	d := newUpdogDriver()
	c1, err := drvOpen(d, "file:"+p1)
	if err != nil {
		panic(err)
	}
	c2, err := drvOpen(d, "file:"+p1) // the same cached connection, as database/sql's pool gets it
	if err != nil {
		panic(err)
	}
	text := `a = $1`
	check := func(tag, arg string, r sqldriver.Rows, err error) {
		verifAssert(err == nil, tag+": a query with a bound argument failed")
		if err == nil {
			drvCheckRows(tag, drvQuery{text: text, match: isA(arg)}, c17Rows, r)
		}
	}
	var wg sync.WaitGroup
	verifPreemptions(1 + verifTier())
	verifSchedule(true)
	verifLockset(true)
	wg.Add(3)
	go func() {
		defer wg.Done()
		st, err := c1.Prepare(text)
		verifAssert(err == nil, "C17: Prepare failed")
		if err != nil {
			return
		}
		r, err := st.Query([]sqldriver.Value{"x"})
		check("C17 prepared statement next to other handles", "x", r, err)
		st.Close()
		r, err = c1.QueryContext(drvCtx, text, []sqldriver.NamedValue{{Ordinal: 1, Value: "x"}})
		check("C17 direct query next to other handles", "x", r, err)
	}()
	go func() {
		defer wg.Done()
		r, err := c2.QueryContext(drvCtx, text, []sqldriver.NamedValue{{Ordinal: 1, Value: "y"}})
		check("C17 direct query next to other handles", "y", r, err)
	}()
	go func() {
		defer wg.Done()
		c, err := drvOpen(d, "file:"+p2)
		verifAssert(err == nil, "C17: opening another file failed")
		if err != nil {
			return
		}
		c17QueryRows("C17 other file", c, 0, c17RowsB)
		verifAssert(c.Close() == nil, "C17: Close failed")
	}()
	wg.Wait()
	verifLockset(false)
	verifSchedule(false)
	verifRaceFree("C17: queries with arguments on handles of one data source share state")
	verifAssert(c1.Close() == nil && c2.Close() == nil, "C17: Close failed")
	verifAssert(!verifFlockHeld(p1) && !verifFlockHeld(p2), "C17: a file stays locked after its last handle was closed")
	verifReach("end")
}

// HarnessC17CloseFault: releasing the file lock fails while the last handle of a data source is
// closed (Close reports an error; the operating system releases the file all the same). The
// data source must stay usable: a handle opened afterwards answers from the file, is not the
// closed connection, and the file is released when that handle is closed.
func HarnessC17CloseFault() {
	p1 := verifTempPath("c17f.updog")
	drvBuild(p1, c17Rows)
	dsn := "file:" + p1
	d := newUpdogDriver()
	nh := 1 + verifChoice("handles", 2)
	var hs []*fileConn
	for i := 0; i < nh; i++ {
		c, err := drvOpen(d, dsn)
		verifAssert(err == nil, "C17: opening a handle failed")
		if err != nil {
			return
		}
		hs = append(hs, c)
	}
	c17QueryRows("C17 before the failing Close", hs[0], 0, c17Rows)
	for i := 0; i < nh-1; i++ {
		verifAssert(hs[i].Close() == nil, "C17: Close failed")
	}
	verifBoltCloseFault(p1)
	_ = hs[nh-1].Close() // may report the unlock error
	verifAssert(!verifFlockHeld(p1), "C17: a file stays locked after its last handle was closed")
	c, err := drvOpen(d, dsn)
	verifAssert(err == nil, "C17: a data source cannot be opened again after a Close that reported an error")
	if err != nil {
		return
	}
	c17QueryRows("C17 after a Close that reported an error", c, 0, c17Rows)
	verifAssert(c.Close() == nil, "C17: Close failed")
	verifAssert(!verifFlockHeld(p1), "C17: a file stays locked after its last handle was closed")
	verifReach("end")
}
