package main

import (
	"crypto/sha1"
	"fmt"
	"go/ast"
	"go/parser"
	"go/token"
	"os"
	"path/filepath"
	"sort"
	"strconv"
	"strings"
)

// Delay injection for the native confirmation of schedule-dependent counterexamples.
//
// The engine reports, with such a counterexample, the statements of the code under test at
// which the failing interleaving switches goroutines (or, for a data race, the two unordered
// accesses). A plain native run leaves the interleaving to the Go scheduler, and a window of
// a few instructions is hit once in millions of runs. When the plain replay passes, the
// replay binary is rebuilt from an overlay copy of the affected source files in which a call
// of verifDelaySiteX() (random: nothing, Gosched, a sleep of up to 200 µs, occasionally up to 5 ms) is inserted
// before each such statement and before the statement following it. The delays add no
// synchronisation (no shared memory is touched), so they cannot create a failure the
// unmodified code could not show; they only make rare interleavings frequent.

const delayFuncSrc = `package PKGNAME

import (
	"runtime"
	"time"
)

func verifDelaySiteX() {
	n := time.Now().Nanosecond() >> 3
	switch n % 16 {
	case 0, 1, 2:
	case 3, 4, 5:
		runtime.Gosched()
	case 6: // now and then a long pause: lets a goroutine that is milliseconds behind catch up
		time.Sleep(time.Duration(n%5000) * time.Microsecond)
	case 7:
		time.Sleep(time.Duration(n%1000) * time.Microsecond)
	default:
		time.Sleep(time.Duration(n%200) * time.Microsecond)
	}
}
`

// delayOverlay returns overlay entries (path in the repository -> file with the modified
// contents) for the given sites ("file:line"), and a tag identifying the site set.
func delayOverlay(scratch string, sites []string) (map[string]string, string, error) {
	byFile := map[string][]int{}
	for _, s := range sites {
		i := strings.LastIndex(s, ":")
		if i < 0 {
			continue
		}
		ln, err := strconv.Atoi(s[i+1:])
		if err != nil {
			continue
		}
		byFile[s[:i]] = append(byFile[s[:i]], ln)
	}
	if len(byFile) == 0 {
		return nil, "", fmt.Errorf("no usable sites")
	}
	var keys []string
	for f, ls := range byFile {
		sort.Ints(ls)
		keys = append(keys, fmt.Sprint(f, ls))
	}
	sort.Strings(keys)
	tag := fmt.Sprintf("%x", sha1.Sum([]byte(strings.Join(keys, "|"))))[:10]
	out := map[string]string{}
	pkgOfDir := map[string]string{}
	n := 0
	for file, lines := range byFile {
		src, err := os.ReadFile(file)
		if err != nil {
			return nil, "", err
		}
		fset := token.NewFileSet()
		f, err := parser.ParseFile(fset, file, src, parser.ParseComments)
		if err != nil {
			return nil, "", err
		}
		offsets := map[int]bool{}
		for _, ln := range lines {
			for _, off := range stmtOffsets(fset, f, ln) {
				offsets[off] = true
			}
		}
		if len(offsets) == 0 {
			continue
		}
		var offs []int
		for o := range offsets {
			offs = append(offs, o)
		}
		sort.Sort(sort.Reverse(sort.IntSlice(offs)))
		txt := string(src)
		for _, o := range offs {
			txt = txt[:o] + "verifDelaySiteX(); " + txt[o:]
			n++
		}
		real := filepath.Join(scratch, "delay_"+tag+"_"+strings.ReplaceAll(strings.TrimPrefix(file, "/"), "/", "_"))
		if err := os.WriteFile(real, []byte(txt), 0644); err != nil {
			return nil, "", err
		}
		out[file] = real
		pkgOfDir[filepath.Dir(file)] = f.Name.Name
	}
	if n == 0 {
		return nil, "", fmt.Errorf("no statement found at the sites")
	}
	for dir, pkg := range pkgOfDir {
		real := filepath.Join(scratch, "delay_"+tag+"_fn_"+strings.ReplaceAll(strings.TrimPrefix(dir, "/"), "/", "_")+".go")
		if err := os.WriteFile(real, []byte(strings.Replace(delayFuncSrc, "PKGNAME", pkg, 1)), 0644); err != nil {
			return nil, "", err
		}
		out[filepath.Join(dir, "zz_verif_delaysite.go")] = real
	}
	return out, tag, nil
}

// stmtOffsets finds the innermost statement of a statement list that covers the line and
// returns the byte offsets of its start and of the start of the statement following it in
// the same list.
func stmtOffsets(fset *token.FileSet, f *ast.File, line int) []int {
	var best ast.Stmt
	var bestNext ast.Stmt
	bestSpan := 1 << 30
	visitList := func(list []ast.Stmt) {
		for i, s := range list {
			a, b := fset.Position(s.Pos()).Line, fset.Position(s.End()).Line
			if a <= line && line <= b && b-a < bestSpan {
				best, bestSpan = s, b-a
				bestNext = nil
				if i+1 < len(list) {
					bestNext = list[i+1]
				}
			}
		}
	}
	ast.Inspect(f, func(n ast.Node) bool {
		switch x := n.(type) {
		case *ast.BlockStmt:
			visitList(x.List)
		case *ast.CaseClause:
			visitList(x.Body)
		case *ast.CommClause:
			visitList(x.Body)
		}
		return true
	})
	if best == nil {
		return nil
	}
	out := []int{fset.Position(best.Pos()).Offset}
	if bestNext != nil {
		out = append(out, fset.Position(bestNext.Pos()).Offset)
	}
	return out
}
