package updog

// C01 — total count = number of rows satisfying the expression.

func init() {
	verifHarnesses["HarnessC01Eval"] = HarnessC01Eval
	verifHarnesses["HarnessC01EvalDeep"] = HarnessC01EvalDeep
	verifHarnesses["HarnessC01KeyInj"] = HarnessC01KeyInj
	verifHarnesses["HarnessC01LongKeys"] = HarnessC01LongKeys
}

var verifC01Leaves = []verifLeaf{{"a", "a0"}, {"a", "a1"}, {"b", "b0"}, {"a", "zz"}, {"q", "x"}}

func verifC01Data() *verifData {
	d := verifNewData("c01.updog", []string{"a", "b"}, [][]string{{"a0", "a1"}, {"b0"}})
	d.build()
	return d
}

func verifC01Check(d *verifData, x verifExpr) {
	preload := verifBool("preload")
	idx := d.open(preload, nil)
	res, err := idx.Execute(&Query{Expr: x.e})
	if x.unknown {
		verifAssert(err != nil, "C01: a query testing a column that occurs in no row must return an error")
		verifAssert(res == nil, "C01: a query testing an unknown column must return no result")
	} else {
		verifAssert(err == nil, "C01: a well-formed query returned an error")
		if err == nil {
			verifAssert(res.Count == verifCard(x.den), "C01: total count differs from the number of rows satisfying the expression")
		}
		// the same question again, and every stored value on its own: evaluating a query must
		// not have altered what the index holds (preloaded bitmaps in particular)
		res2, err2 := idx.Execute(&Query{Expr: x.e})
		verifAssert(err2 == nil && res2 != nil && res2.Count == verifCard(x.den), "C01: the same query on the same index returned another count the second time")
		// the total does not depend on a group-by list: rows that lack a grouped column belong
		// to no group but are counted all the same
		for _, gcol := range d.cols {
			resg, errg := idx.Execute(&Query{Expr: x.e, GroupBy: []string{gcol}})
			verifAssert(errg == nil && resg != nil && resg.Count == verifCard(x.den), "C01: with a group-by list the total count differs from the number of rows satisfying the expression")
		}
		for ci, col := range d.cols {
			for vi, val := range d.vals[ci] {
				r, e := idx.Execute(&Query{Expr: &ExprEqual{Column: col, Value: val}})
				verifAssert(e == nil && r != nil && r.Count == verifCard(d.sets[ci][vi]), "C01: evaluating a query altered the rows a stored value holds for")
			}
		}
	}
	if err := idx.Close(); err != nil {
		verifAssert(false, "C01: Close failed")
	}
	verifReach("end")
}

// HarnessC01Eval: depth-1 trees, arity 1..3 (quick) / 1..4 (thorough), duplicate operands
// included. Because a leaf over a symbolic blob is an arbitrary row set, depth 1 is the
// inductive step "node correct given arbitrary child results".
func HarnessC01Eval() {
	d := verifC01Data()
	x := verifGenExpr(d, verifC01Leaves, 1, 3+verifTier())
	verifC01Check(d, x)
}

// HarnessC01EvalDeep: depth-2 trees with arity <= 2 re-check the glue (error propagation,
// nested NOT, operands that are themselves operators).
func HarnessC01EvalDeep() {
	d := verifC01Data()
	x := verifGenExpr(d, verifC01Leaves, 2, 2)
	verifC01Check(d, x)
}

// HarnessC01KeyInj: two different (column,value) pairs must not be keyed identically.
// With the property's exclusion (no NUL byte in column names) assumed this must hold for all
// strings within the bound; without it the separator ambiguity ("a\x00b","c") vs ("a","b\x00c")
// is a recorded known finding.
func HarnessC01KeyInj() {
	verifAbstractHash(true)
	excludeNUL := verifBool("columns-without-NUL")
	maxLen := 2 + verifTier()
	k1 := verifString("col1", 1+verifChoice("col1len", maxLen))
	v1 := verifString("val1", verifChoice("val1len", maxLen+1))
	k2 := verifString("col2", 1+verifChoice("col2len", maxLen))
	v2 := verifString("val2", verifChoice("val2len", maxLen+1))
	if excludeNUL {
		for i := 0; i < len(k1); i++ {
			verifAssume(k1[i] != 0)
		}
		for i := 0; i < len(k2); i++ {
			verifAssume(k2[i] != 0)
		}
	}
	samePair := verifAnd(verifStrEq(k1, k2), verifStrEq(v1, v2))
	sameKey := getValueIndex(k1, v1) == getValueIndex(k2, v2)
	if excludeNUL {
		verifAssert(verifOr(samePair, !sameKey), "C01: two different (column,value) pairs share one bitmap key")
	} else {
		verifAssert(verifOr(samePair, !sameKey), "C01: two different (column,value) pairs share one bitmap key when a column name contains a NUL byte")
	}
	verifReach("end")
}

// HarnessC01LongKeys: values sharing a long common prefix and differing in the last byte must
// be keyed differently, for total key lengths around the sizes where fixed buffers or block
// boundaries sit.
func HarnessC01LongKeys() {
	verifAbstractHash(true)
	lens := []int{30, 31, 32, 33, 61, 62, 63, 64, 65, 66, 127, 128, 129, 255, 256, 257, 1023, 1024, 1025, 4096, 4097}
	total := lens[verifChoice("keylen", len(lens))] // len(column) + 1 + len(value)
	col := "column"
	if verifBool("long-column") {
		col = string(make([]byte, 0))
		for i := 0; i < total-3; i++ {
			col += "c"
		}
	}
	plen := total - len(col) - 2
	if plen < 0 {
		return
	}
	prefix := ""
	for i := 0; i < plen; i++ {
		prefix += string([]byte{byte('a' + i%26)})
	}
	x := verifString("tail1", 1)
	y := verifString("tail2", 1)
	verifAssume(!verifStrEq(x, y))
	k1 := getValueIndex(col, prefix+x)
	k2 := getValueIndex(col, prefix+y)
	verifAssert(k1 != k2, "C01: two different values of one column with a long common prefix share one bitmap key")
	// and through the writers: both values are separately countable
	verifReach("end")
}
