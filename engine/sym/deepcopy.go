package sym

import (
	"go/token"
	"strings"

	"golang.org/x/tools/go/ssa"
)

func deepCopy(v Value, memo map[*Value]*Value) Value {
	switch x := v.(type) {
	case *Value:
		if x == nil {
			return x
		}
		if n, ok := memo[x]; ok {
			return n
		}
		n := new(Value)
		memo[x] = n
		*n = deepCopy(*x, memo)
		return n
	case Struct:
		n := make(Struct, len(x))
		for i, f := range x {
			n[i] = deepCopy(f, memo)
		}
		return n
	case Array:
		n := make(Array, len(x))
		for i, f := range x {
			n[i] = deepCopy(f, memo)
		}
		return n
	case Slice:
		if x.a == nil {
			return x
		}
		b := &Backing{v: make([]Value, x.len), esize: x.a.esize}
		for i := 0; i < x.len; i++ {
			b.v[i] = deepCopy(*x.At(i), memo)
		}
		return Slice{a: b, len: x.len, cap: x.len}
	case *Map:
		if x == nil {
			return x
		}
		n := &Map{ktype: x.ktype}
		for i := range x.keys {
			n.keys = append(n.keys, deepCopy(x.keys[i], memo))
			n.vals = append(n.vals, deepCopy(x.vals[i], memo))
		}
		n.reindex()
		return n
	case Iface:
		return Iface{t: x.t, v: deepCopy(x.v, memo)}
	}
	return v
}

func (p *Program) installDeepCopy() {
	in := p.intrinsics

	in["google.golang.org/protobuf/proto.Clone"] = func(fr *frame, a []Value) Value {
		it := a[0].(Iface)
		if it.t == nil {
			return it
		}
		return deepCopy(it, map[*Value]*Value{})
	}

	// encoding/gob as an identity blob: Decode(Encode(x)) deep-equals x.
	in["encoding/gob.NewEncoder"] = func(fr *frame, a []Value) Value {
		var cell Value = Opaque{kind: "gobenc", v: a[0]}
		return &cell
	}
	in["(*encoding/gob.Encoder).Encode"] = func(fr *frame, a []Value) Value {
		m := fr.m
		enc := (*a[0].(*Value)).(Opaque)
		w := enc.v.(Iface)
		it := a[1].(Iface)
		if it.t == nil {
			return m.mkError("gob: cannot encode nil value")
		}
		blob := deepCopy(it, map[*Value]*Value{})
		m.gobBlobs = append(m.gobBlobs, blob)
		id := len(m.gobBlobs) - 1
		data := MkStr("GOB1" + string([]byte{byte(id >> 8), byte(id)}))
		r, ok := m.callMethod(fr, w, "Write", strToByteSlice(data))
		if !ok {
			unsupportedf("gob encoder: writer %v has no Write", w.t)
		}
		if t, ok := r.(Tuple); ok {
			if e, ok := t[1].(Iface); ok && e.t != nil {
				return e
			}
		}
		return Iface{}
	}
	// encoding/json as an identity blob whose strings went through UTF-8 coercion (what
	// distinguishes it from gob for the data this code stores); exported fields only, as for gob
	in["encoding/json.NewEncoder"] = func(fr *frame, a []Value) Value {
		var cell Value = Opaque{kind: "jsonenc", v: a[0]}
		return &cell
	}
	in["(*encoding/json.Encoder).Encode"] = func(fr *frame, a []Value) Value {
		m := fr.m
		enc := (*a[0].(*Value)).(Opaque)
		w := enc.v.(Iface)
		it := a[1].(Iface)
		if it.t == nil {
			it = Iface{}
		}
		blob := sanitizeUTF8(deepCopy(it, map[*Value]*Value{}))
		m.gobBlobs = append(m.gobBlobs, blob)
		id := len(m.gobBlobs) - 1
		data := MkStr("JSN1" + string([]byte{byte(id >> 8), byte(id)}))
		m.noteOnce("model: encoding/json = identity blob with invalid UTF-8 in strings replaced by U+FFFD")
		r, ok := m.callMethod(fr, w, "Write", strToByteSlice(data))
		if !ok {
			unsupportedf("json encoder: writer %v has no Write", w.t)
		}
		if t, ok := r.(Tuple); ok {
			if e, ok := t[1].(Iface); ok && e.t != nil {
				return e
			}
		}
		return Iface{}
	}
	in["encoding/json.NewDecoder"] = func(fr *frame, a []Value) Value {
		var cell Value = Opaque{kind: "jsondec", v: a[0]}
		return &cell
	}
	in["(*encoding/json.Decoder).Decode"] = func(fr *frame, a []Value) Value {
		m := fr.m
		dec := (*a[0].(*Value)).(Opaque)
		r := dec.v.(Iface)
		buf := m.makeSlice(byteType, 16, 16)
		res, ok := m.callMethod(fr, r, "Read", buf)
		if !ok {
			unsupportedf("json decoder: reader %v has no Read", r.t)
		}
		n := m.concreteInt(res.(Tuple)[0], "json read length")
		if n == 0 {
			return m.ioEOF()
		}
		bs, conc := termsConcrete(sliceTerms(Slice{a: buf.a, off: 0, len: n, cap: n}))
		if !conc {
			unsupportedf("json decode of symbolic bytes")
		}
		if n != 6 || string(bs[:4]) != "JSN1" {
			return m.mkError("invalid character looking for beginning of value (model: not a JSON blob)")
		}
		id := int(bs[4])<<8 | int(bs[5])
		if id >= len(m.gobBlobs) {
			return m.mkError("json: unknown blob (model)")
		}
		src := deepCopy(m.gobBlobs[id], map[*Value]*Value{}).(Iface)
		dst := a[1].(Iface)
		dp, ok1 := dst.v.(*Value)
		sp, ok2 := src.v.(*Value)
		if !ok1 || !ok2 || dp == nil || sp == nil {
			return m.mkError("json: cannot unmarshal into the given value (model)")
		}
		*dp = *sp
		return Iface{}
	}
	in["encoding/gob.NewDecoder"] = func(fr *frame, a []Value) Value {
		var cell Value = Opaque{kind: "gobdec", v: a[0]}
		return &cell
	}
	in["(*encoding/gob.Decoder).Decode"] = func(fr *frame, a []Value) Value {
		m := fr.m
		dec := (*a[0].(*Value)).(Opaque)
		r := dec.v.(Iface)
		buf := m.makeSlice(byteType, 16, 16)
		res, ok := m.callMethod(fr, r, "Read", buf)
		if !ok {
			unsupportedf("gob decoder: reader %v has no Read", r.t)
		}
		n := m.concreteInt(res.(Tuple)[0], "gob read length")
		if n == 0 {
			return m.ioEOF()
		}
		bs, conc := termsConcrete(sliceTerms(Slice{a: buf.a, off: 0, len: n, cap: n}))
		if !conc {
			unsupportedf("gob decode of symbolic bytes")
		}
		if n != 6 || string(bs[:4]) != "GOB1" {
			return m.mkError("gob: encoded data is not a gob stream (model)")
		}
		id := int(bs[4])<<8 | int(bs[5])
		if id >= len(m.gobBlobs) {
			return m.mkError("gob: unknown blob (model)")
		}
		src := deepCopy(m.gobBlobs[id], map[*Value]*Value{}).(Iface)
		dst := a[1].(Iface)
		dp, ok1 := dst.v.(*Value)
		sp, ok2 := src.v.(*Value)
		if !ok1 || !ok2 || dp == nil || sp == nil {
			return m.mkError("gob: type mismatch (model)")
		}
		*dp = *sp
		return Iface{}
	}
}

// sanitizeUTF8 rewrites every string of a (deep-copied) value the way encoding/json does when
// it encodes: invalid UTF-8 is replaced by U+FFFD. Strings with symbolic bytes are unsupported.
func sanitizeUTF8(v Value) Value {
	switch x := v.(type) {
	case Str:
		if !x.IsConcrete() {
			unsupportedf("encoding/json of a string with symbolic bytes")
		}
		return MkStr(strings.ToValidUTF8(x.Concrete(), "\uFFFD"))
	case *Value:
		if x != nil {
			*x = sanitizeUTF8(*x)
		}
		return x
	case Struct:
		for i := range x {
			x[i] = sanitizeUTF8(x[i])
		}
		return x
	case Array:
		for i := range x {
			x[i] = sanitizeUTF8(x[i])
		}
		return x
	case Slice:
		for i := 0; i < x.len; i++ {
			*x.At(i) = sanitizeUTF8(*x.At(i))
		}
		return x
	case *Map:
		if x != nil {
			// keys that become equal collapse into one entry (the later one wins, as when
			// decoding a JSON object with a repeated key)
			var keys, vals []Value
			for i := range x.keys {
				k := sanitizeUTF8(x.keys[i])
				val := sanitizeUTF8(x.vals[i])
				dup := -1
				for j := range keys {
					if e := valueEq(keys[j], k); e.IsConst() && e.val == 1 {
						dup = j
					}
				}
				if dup >= 0 {
					vals[dup] = val
				} else {
					keys = append(keys, k)
					vals = append(vals, val)
				}
			}
			x.keys, x.vals = keys, vals
			x.reindex()
		}
		return x
	case Iface:
		return Iface{t: x.t, v: sanitizeUTF8(x.v)}
	}
	return v
}

var byteType = typesByte()

func (m *Machine) ioEOF() Value {
	sp := m.P.byPath["io"]
	if sp == nil {
		unsupportedf("io not loaded")
	}
	g := sp.Var("EOF")
	return m.load(nil, token.NoPos, m.global(g))
}

var _ = (*ssa.Function)(nil)
