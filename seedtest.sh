#!/bin/bash
# usage: seedtest.sh <property id> [seed-name] [property whose check is run]   (development aid)
# Confirms a seeded change delivered in /tmp/wt_<id>/seed (patch applies, tests pass with it,
# demo fails with it and passes without), stores it under /verif/seeded/<name>/ and runs the
# property's quick check against /repo with the patch applied (reverted afterwards).
set -u
id=$1; name=${2:-$1}; chk=${3:-$1}
wt=/tmp/wt_$id
export GOFLAGS=-mod=mod GOPROXY=off GOSUMDB=off GOTOOLCHAIN=local
out=/verif/seeded/$name
mkdir -p $out
cp $wt/seed/patch.diff $out/patch.diff || exit 2
# fresh scratch worktree for confirmation
sc=$(mktemp -d /tmp/seedconf.XXXX)
git -C /repo worktree add -q --detach $sc HEAD
demos=$(cd $wt && git status --short | grep '^??' | awk '{print $2}' | grep '_test.go$')
( cd $sc && git apply $out/patch.diff ) || { echo "PATCH DOES NOT APPLY"; git -C /repo worktree remove --force $sc; exit 2; }
( cd $sc && go build ./... ) || echo "BUILD FAILS WITH PATCH"
tests_with=$(cd $sc && go test -vet=off -count=1 ./... 2>&1 | grep -c "^FAIL")
mkdir -p $out/demo
for d in $demos; do mkdir -p $sc/$(dirname $d); cp $wt/$d $sc/$d; mkdir -p $out/demo/$(dirname $d); cp $wt/$d $out/demo/$d; done
demo_with=$(cd $sc && go test -vet=off -count=1 -run 'Seed' ./... 2>&1 | grep -c "^--- FAIL\|^FAIL\|panic:")
( cd $sc && git apply -R $out/patch.diff )
demo_without=$(cd $sc && go test -vet=off -count=1 -run 'Seed' ./... 2>&1 | grep -c "^--- FAIL\|^FAIL\|panic:")
git -C /repo worktree remove --force $sc
echo "confirm: existing tests failing with patch=$tests_with (want 0); demo failures with patch=$demo_with (want >0); without=$demo_without (want 0)"
# run the check against /repo with the patch applied
git -C /repo apply $out/patch.diff || { echo "cannot apply to /repo"; exit 2; }
cd /verif && timeout 1500 ./check.sh $chk quick > $out/check_quick.log 2>&1; rc=$?
git -C /repo checkout -- . ; git -C /repo status --short | head -3
echo "check exit=$rc"; grep -c "^VIOLATION" $out/check_quick.log; grep "^VIOLATION\|^  [A-Z-]*: \|SPURIOUS\|INCONCLUSIVE" $out/check_quick.log | cut -c1-300 | head -8
python3 - "$id" "$name" "$tests_with" "$demo_with" "$demo_without" "$rc" <<'PY'
import json,sys
id,name,tw,dw,dwo,rc=sys.argv[1:7]
json.dump({"property":id,"seed":name,"existing_tests_failing_with_patch":int(tw),"demo_failures_with_patch":int(dw),"demo_failures_without_patch":int(dwo),"quick_check_exit_with_patch":int(rc),"caught_by_quick":int(rc)==1,"needs":"see README.md","ran":"seedtest.sh: git apply in a scratch worktree; go build; go test (suite); go test -run Seed with and without the patch; check.sh <id> quick against /repo with the patch applied, then git checkout"},open('/verif/seeded/%s/meta.json'%name,'w'),indent=1)
PY
cp $wt/seed/README.md $out/README.md 2>/dev/null
# restore evidence produced on the mutated tree
cd /verif && git checkout -- evidence/$chk.json 2>/dev/null; rm -rf /verif/replays/$chk
