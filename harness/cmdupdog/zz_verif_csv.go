package main

import (
	"bytes"
	"os"
	"strings"
)

// verifCSV (native side): write a CSV file holding the records; before record errAt (if >= 0)
// a malformed line (bare quote) is inserted. The engine intercepts this function and feeds
// the records to its encoding/csv stub instead.
//
// Fields are quoted only where RFC 4180 requires it (quote, comma, CR, LF inside; a lone
// empty field on its line): in particular a field that begins with a blank is written as is,
// which is well-formed CSV whose field value includes the blank.
func verifCSV(path string, records [][]string, errAt int) {
	var buf bytes.Buffer
	for i, r := range records {
		if i == errAt {
			buf.WriteString("x\"y\n")
		}
		for j, f := range r {
			if j > 0 {
				buf.WriteByte(',')
			}
			if strings.ContainsAny(f, "\",\r\n") || (f == "" && len(r) == 1) || f == `\.` {
				buf.WriteByte('"')
				buf.WriteString(strings.ReplaceAll(f, `"`, `""`))
				buf.WriteByte('"')
			} else {
				buf.WriteString(f)
			}
		}
		buf.WriteByte('\n')
	}
	if errAt >= len(records) {
		buf.WriteString("x\"y\n")
	}
	if err := os.WriteFile(path, buf.Bytes(), 0644); err != nil {
		panic(err)
	}
}
