package main

import (
	"encoding/json"
	"flag"
	"fmt"
	"os"
	"path/filepath"
	"runtime"
	"sort"
	"strconv"
	"strings"
	"time"

	"verif/engine/sym"
)

type harnessRef struct {
	Pkg string // key of pkgs
	Fn  string
	// optional limits per tier (0 = none): seconds of exploration
	QuickSecs, ThoroughSecs int
	// ThoroughOnly harnesses are skipped in the quick tier
	ThoroughOnly bool
	// Guest: a harness that belongs to another property's check and is run here because it also
	// exercises this property; it keeps its quick-tier bounds in this check's thorough tier
	Guest bool
}

type checkDef struct {
	ID        string
	Harnesses []harnessRef
	Bounds    string // human-readable statement of the bounds and what lies outside
}

type knownFinding struct {
	Property    string `json:"property"`
	Harness     string `json:"harness"`
	MsgContains string `json:"msg_contains"`
	What        string `json:"what"`
}

type knownFile struct {
	Findings []knownFinding `json:"findings"`
	Fixed    []string       `json:"fixed"`
}

func loadKnown() knownFile {
	var k knownFile
	b, err := os.ReadFile(filepath.Join(verifDir, "known_findings.json"))
	if err == nil {
		_ = json.Unmarshal(b, &k)
	}
	return k
}

type harnessEvidence struct {
	Harness      string         `json:"harness"`
	Paths        int            `json:"paths"`
	PathEnds     map[string]int `json:"path_ends"`
	SolverSat    int            `json:"solver_sat"`
	SolverUnsat  int            `json:"solver_unsat"`
	SolverUnk    int            `json:"solver_unknown"`
	SolverErrors int            `json:"solver_errors"`
	SolverS      float64        `json:"solver_seconds"`
	Portfolio    int            `json:"portfolio_runs"`
	Steps        int64          `json:"ssa_instructions_executed"`
	WallS        float64        `json:"wall_s"`
	Complete     bool           `json:"complete_within_bounds"`
	Pending      int            `json:"pending_work_items"`
	Reach        map[string]int `json:"reachability_witnesses"`
	Inconclusive map[string]int `json:"inconclusive,omitempty"`
	Unsupported  map[string]int `json:"unsupported,omitempty"`
	Unwind       map[string]int `json:"unwinding_failures,omitempty"`
	Violations   int            `json:"violations"`
	Confirmed    int            `json:"violations_confirmed_by_replay"`
	Spurious     int            `json:"spurious"`
	DiffRuns     int            `json:"passing_paths_replayed_natively"`
	DiffAgree    int            `json:"passing_paths_agreeing"`
}

func cmdCheck(args []string) int {
	if len(args) < 1 {
		usage()
	}
	id := args[0]
	fs := flag.NewFlagSet("check", flag.ExitOnError)
	tierS := fs.String("tier", envOr("VERIF_TIER", "quick"), "quick|thorough")
	workers := fs.Int("workers", runtime.NumCPU(), "workers")
	fs.Parse(args[1:])
	tier := 0
	if *tierS == "thorough" {
		tier = 1
	}
	seed, _ := strconv.Atoi(envOr("VERIF_SEED", "0"))
	var def *checkDef
	for i := range checks {
		if checks[i].ID == id {
			def = &checks[i]
		}
	}
	if def == nil {
		fmt.Fprintf(os.Stderr, "unknown check %s\n", id)
		return 2
	}
	t0 := time.Now()
	scratch, _ := os.MkdirTemp("", "vf")
	defer os.RemoveAll(scratch)
	var which []string
	seen := map[string]bool{}
	for _, h := range def.Harnesses {
		if !seen[h.Pkg] {
			which = append(which, h.Pkg)
			seen[h.Pkg] = true
		}
	}
	known := loadKnown()
	evPath := filepath.Join(verifDir, "evidence", id+".json")
	os.MkdirAll(filepath.Dir(evPath), 0755)
	replayDir := filepath.Join(verifDir, "replays", id)

	ev := map[string]interface{}{}
	writeEvidence := func(cov map[string]interface{}, assumptions []string, violations int) {
		ev = map[string]interface{}{
			"property_id": id,
			"tier":        *tierS,
			"seed":        seed,
			"level":       "model_checking",
			"coverage":    cov,
			"assumptions": assumptions,
			"wall_s":      time.Since(t0).Seconds(),
			"violations":  violations,
		}
		b, _ := json.MarshalIndent(ev, "", " ")
		os.WriteFile(evPath, b, 0644)
	}

	p, ov, err := loadProgram(scratch, which)
	if err != nil {
		// The harness does not load against the current tree (e.g. a refactor removed what a
		// shim touches): the check cannot decide anything.
		fmt.Printf("INCONCLUSIVE property=%s reason=harness does not load against the current tree: %s\n", id, truncate(err.Error(), 2000))
		writeEvidence(map[string]interface{}{
			"states": 1, "transitions": 1, "traces_validated_against_impl": 0,
			"samples":     []string{"load failure: " + truncate(err.Error(), 500)},
			"explanation": "harness overlay did not type-check against the current tree; nothing was decided",
			"exhaustive":  false,
		}, nil, 0)
		return 0
	}

	cfg := sym.DefaultConfig()
	cfg.Tier = tier
	printedKnown := map[string]bool{}
	var hevs []harnessEvidence
	totalPaths, totalQueries, totalReplays := 0, 0, 0
	var samples []interface{}
	funcs := map[string]int{}
	assumptions := map[string]bool{}
	exit := 0
	nViol := 0
	allComplete := true
	var inconclusive []string

	for _, h := range def.Harnesses {
		if h.ThoroughOnly && tier == 0 {
			continue
		}
		pi := pkgs[h.Pkg]
		f := p.Func(importPath(p, pi), h.Fn)
		if f == nil {
			fmt.Printf("INCONCLUSIVE property=%s reason=harness %s not found\n", id, h.Fn)
			allComplete = false
			continue
		}
		hTier := tier
		if h.Guest {
			hTier = 0
		}
		hcfg := cfg
		hcfg.Tier = hTier
		lim := sym.Limits{MaxWitnesses: 2 + 3*hTier, MaxViolations: 8 + 56*hTier}
		secs := h.QuickSecs
		if tier == 1 {
			secs = h.ThoroughSecs
		}
		if secs > 0 {
			lim.Deadline = time.Now().Add(time.Duration(secs) * time.Second)
		}
		rep, err := sym.Explore(p, f, *workers, hcfg, lim)
		if err != nil {
			fmt.Printf("INCONCLUSIVE property=%s reason=engine error in %s: %v\n", id, h.Fn, err)
			allComplete = false
			continue
		}
		fmt.Println("  " + rep.Summary())
		he := harnessEvidence{Harness: h.Fn, Paths: rep.Paths, PathEnds: rep.ByKind, SolverSat: rep.Solver.Sat, SolverUnsat: rep.Solver.Unsat,
			SolverUnk: rep.Solver.Unknown, SolverErrors: rep.Solver.Errors, SolverS: rep.Solver.SolveS, Portfolio: rep.Solver.PortfolioRuns,
			Steps: rep.Steps, WallS: rep.WallS, Complete: rep.Complete(), Pending: rep.Pending, Reach: rep.Reached,
			Inconclusive: rep.Inconcl, Unsupported: rep.UnsupportedMsgs, Unwind: rep.UnwindMsgs, Violations: len(rep.Violations)}
		totalPaths += rep.Paths
		totalQueries += rep.Solver.Sat + rep.Solver.Unsat
		for fn, n := range rep.Funcs {
			funcs[fn] += n
		}
		for n := range rep.Notes {
			assumptions[n] = true
		}
		for _, s := range rep.Samples {
			if len(samples) < 12 {
				samples = append(samples, map[string]string{"harness": h.Fn, "path": s})
			}
		}
		if !rep.Complete() {
			allComplete = false
			why := []string{}
			if rep.Truncated {
				why = append(why, fmt.Sprintf("%d work items left when the limit was reached", rep.Pending))
			}
			for k, n := range rep.UnsupportedMsgs {
				why = append(why, fmt.Sprintf("UNSUPPORTED x%d: %s", n, k))
			}
			for k, n := range rep.UnwindMsgs {
				why = append(why, fmt.Sprintf("%s x%d", k, n))
			}
			for k, n := range rep.Inconcl {
				why = append(why, fmt.Sprintf("undecided x%d: %s", n, k))
			}
			if rep.Solver.Errors > 0 {
				why = append(why, fmt.Sprintf("%d solver errors", rep.Solver.Errors))
			}
			sort.Strings(why)
			msg := fmt.Sprintf("INCONCLUSIVE property=%s harness=%s reason=%s", id, h.Fn, truncate(strings.Join(why, "; "), 1500))
			fmt.Println(msg)
			inconclusive = append(inconclusive, msg)
		}
		// reachability witnesses: a harness none of whose paths reaches "end" proves nothing
		if rep.Paths > 0 && rep.Reached["end"] == 0 && len(rep.Violations) == 0 {
			msg := fmt.Sprintf("INCONCLUSIVE property=%s harness=%s reason=vacuous: no path reached the end label", id, h.Fn)
			fmt.Println(msg)
			inconclusive = append(inconclusive, msg)
			allComplete = false
		}

		// violations: replay against the real build, dedupe by message
		seenMsg := map[string]int{}
		for _, v := range rep.Violations {
			if seenMsg[v.Kind+v.Msg] >= 2 {
				continue
			}
			seenMsg[v.Kind+v.Msg]++
			out := replayNative(scratch, ov, pi, v, hTier, nViol)
			totalReplays += out.Runs
			if v.Kind == "NONTERMINATION" && out.Verdict == "reproduced" && !strings.Contains(out.Detail, "HANG") && !strings.Contains(out.Detail, "timed out") {
				// only a native run that does not finish confirms a non-termination candidate
				// (any other native failure of these inputs is reported on its own path)
				out.Verdict = "passed"
			}
			switch out.Verdict {
			case "reproduced":
				he.Confirmed++
				if kf := matchKnown(known, id, v); kf != nil {
					if !printedKnown[kf.What] {
						printedKnown[kf.What] = true
						fmt.Printf("KNOWN-FINDING: property=%s %s\n", id, kf.What)
					}
					continue
				}
				nViol++
				os.MkdirAll(replayDir, 0755)
				dst := filepath.Join(replayDir, fmt.Sprintf("%s_%d.json", v.Harness, nViol))
				copyFile(out.CexPath, dst)
				fmt.Printf("VIOLATION property=%s replay=%s\n", id, dst)
				fmt.Printf("  %s: %s\n  native: %s\n", v.Kind, v.Msg, firstLine(out.Detail))
				exit = 1
				if len(samples) < 16 {
					samples = append(samples, map[string]interface{}{"harness": h.Fn, "violation": v.Msg, "inputs": v.Nondet})
				}
			case "passed", "diverged":
				he.Spurious++
				fmt.Printf("SPURIOUS property=%s harness=%s solver counterexample did not reproduce natively (%s): %s — %s\n", id, h.Fn, out.Verdict, v.Msg, firstLine(out.Detail))
				inconclusive = append(inconclusive, "spurious counterexample in "+h.Fn+": "+v.Msg)
				allComplete = false
			default:
				fmt.Printf("INCONCLUSIVE property=%s harness=%s reason=replay failed to run: %s\n", id, h.Fn, truncate(out.Output, 800))
				inconclusive = append(inconclusive, "replay error in "+h.Fn)
				allComplete = false
			}
		}
		// differential runs: passing paths must also pass natively
		for i, w := range rep.Witnesses {
			out := replayCexOnce(scratch, ov, pi, w, hTier, 1000+i)
			totalReplays++
			he.DiffRuns++
			if out.Verdict == "reproduced" {
				// a native failure of a path the engine let pass is reported only if it is
				// repeatable (not a hiccup of the machine: hang and leak detection use timeouts)
				again := replayCexOnce(scratch, ov, pi, w, hTier, 2000+i)
				totalReplays++
				if again.Verdict != "reproduced" {
					fmt.Printf("NOTE property=%s harness=%s a native run failed once and passed when repeated: %s\n", id, h.Fn, firstLine(out.Detail))
					out = again
				}
			}
			switch out.Verdict {
			case "passed":
				he.DiffAgree++
			case "reproduced":
				// the real code violates the harness assertion on inputs the engine let pass:
				// a real failing run (and an engine/model disagreement)
				nViol++
				os.MkdirAll(replayDir, 0755)
				dst := filepath.Join(replayDir, fmt.Sprintf("%s_native_%d.json", w.Harness, nViol))
				copyFile(out.CexPath, dst)
				if kf := matchKnownMsg(known, id, w.Harness, out.Detail); kf != nil {
					fmt.Printf("KNOWN-FINDING: property=%s %s\n", id, kf.What)
					nViol--
					continue
				}
				fmt.Printf("VIOLATION property=%s replay=%s\n", id, dst)
				fmt.Printf("  native run of a symbolically passing path failed: %s\n", firstLine(out.Detail))
				exit = 1
			default:
				fmt.Printf("NOTE property=%s harness=%s differential run %s: %s\n", id, h.Fn, out.Verdict, firstLine(out.Detail))
			}
		}
		hevs = append(hevs, he)
	}

	var fnames []string
	for fn := range funcs {
		if strings.Contains(fn, "updog") && !strings.Contains(fn, "verif") && !strings.Contains(fn, "Harness") {
			fnames = append(fnames, fn)
		}
	}
	sort.Strings(fnames)
	var as []string
	for a := range assumptions {
		as = append(as, a)
	}
	sort.Strings(as)
	as = append(as, "trusted: dependency models (roaring w64, bbolt transactional model, gob identity blob, ghost file system), go/ssa lowering, the engine, z3")
	if len(samples) == 0 {
		samples = append(samples, "no path completed")
	}
	cov := map[string]interface{}{
		"states":                        max(totalPaths, 1),
		"transitions":                   max(totalQueries, 1),
		"traces_validated_against_impl": totalReplays,
		"samples":                       samples,
		"exhaustive":                    allComplete,
		"explanation":                   "states = complete control-flow paths of the harness(es) through the real code, each covering all data values that follow it; transitions = solver queries decided (sat+unsat) for branch feasibility and assertions; traces_validated = native replays (counterexamples and sampled passing paths) against the real build",
		"bounds":                        def.Bounds,
		"functions_encoded":             fnames,
		"harnesses":                     hevs,
		"inconclusive":                  inconclusive,
		"solver":                        "z3 4.8.12 (persistent, push/pop); portfolio cvc5 --solve-bv-as-int=sum / z3 5.1 for undecided obligations",
	}
	writeEvidence(cov, as, nViol)
	fmt.Printf("check %s tier=%s: paths=%d queries=%d replays=%d violations=%d complete=%v wall=%.1fs\n", id, *tierS, totalPaths, totalQueries, totalReplays, nViol, allComplete, time.Since(t0).Seconds())
	return exit
}

func firstLine(s string) string {
	if i := strings.IndexByte(s, '\n'); i >= 0 {
		return s[:i]
	}
	return s
}

func matchKnown(k knownFile, id string, v *sym.Violation) *knownFinding {
	return matchKnownMsg(k, id, v.Harness, v.Msg)
}

func matchKnownMsg(k knownFile, id, harness, msg string) *knownFinding {
	for i := range k.Findings {
		f := &k.Findings[i]
		if f.Property == id && (f.Harness == "" || f.Harness == harness) && strings.Contains(msg, f.MsgContains) {
			return f
		}
	}
	return nil
}

func copyFile(src, dst string) {
	b, err := os.ReadFile(src)
	if err == nil {
		os.WriteFile(dst, b, 0644)
	}
}

func replayCexOnce(scratch string, ov map[string]string, pi pkgInfo, v *sym.Violation, tier int, idx int) replayOutcome {
	cex := filepath.Join(scratch, fmt.Sprintf("wit_%s_%d.json", v.Harness, idx))
	if err := writeCex(cex, pi, v, tier); err != nil {
		return replayOutcome{Verdict: "error", Output: err.Error()}
	}
	return replayCexFile(scratch, ov, pi, cex)
}
