package sym

import (
	"fmt"
	"go/types"
	"strings"

	"golang.org/x/tools/go/ssa"
)

// Value is a dynamic value of the interpreted program:
//
//	*Term            integers and booleans (constant or symbolic)
//	Str              strings
//	*Value           pointers (nil pointer = (*Value)(nil))
//	*SymRef          pointer to an element selected by a symbolic index
//	Struct, Array    aggregates (copied on load/store)
//	Slice            slices
//	*Map             maps
//	Iface            interface values
//	*Closure, *ssa.Function, *ssa.Builtin   function values
//	Tuple            multi-value results
//	*Chan            channels
//	*MapIter / *StrIter   range iterators
//	Opaque           host-side objects of intrinsics
type Value interface{}

type Struct []Value
type Array []Value
type Tuple []Value

type Backing struct {
	v     []Value
	esize int64
}

type Slice struct {
	a             *Backing
	off, len, cap int
}

func (s Slice) IsNil() bool { return s.a == nil }
func (s Slice) At(i int) *Value {
	return &s.a.v[s.off+i]
}

type Str struct {
	c string
	s []*Term // non-nil => symbolic content, len(s) is the length; c unused
}

func MkStr(c string) Str { return Str{c: c} }

func (s Str) Len() int {
	if s.s != nil {
		return len(s.s)
	}
	return len(s.c)
}

func (s Str) IsConcrete() bool {
	if s.s == nil {
		return true
	}
	for _, t := range s.s {
		if !t.IsConst() {
			return false
		}
	}
	return true
}

func (s Str) Concrete() string {
	if s.s == nil {
		return s.c
	}
	b := make([]byte, len(s.s))
	for i, t := range s.s {
		b[i] = byte(t.val)
	}
	return string(b)
}

func (s Str) Byte(i int) *Term {
	if s.s != nil {
		return s.s[i]
	}
	return K(8, uint64(s.c[i]))
}

func (s Str) Sub(lo, hi int) Str {
	if s.s != nil {
		if lo == hi {
			return Str{}
		}
		return Str{s: s.s[lo:hi]}.norm()
	}
	return Str{c: s.c[lo:hi]}
}

func (s Str) Terms() []*Term {
	if s.s != nil {
		return s.s
	}
	out := make([]*Term, len(s.c))
	for i := 0; i < len(s.c); i++ {
		out[i] = K(8, uint64(s.c[i]))
	}
	return out
}

// norm turns an all-constant symbolic string into a concrete one.
func (s Str) norm() Str {
	if s.s == nil {
		return s
	}
	if len(s.s) == 0 {
		return Str{}
	}
	for _, t := range s.s {
		if !t.IsConst() {
			return s
		}
	}
	return Str{c: s.Concrete()}
}

func StrFromTerms(ts []*Term) Str {
	if len(ts) == 0 {
		return Str{}
	}
	return Str{s: ts}.norm()
}

func StrConcat(a, b Str) Str {
	if a.s == nil && b.s == nil {
		return Str{c: a.c + b.c}
	}
	if a.Len() == 0 {
		return b
	}
	if b.Len() == 0 {
		return a
	}
	ts := make([]*Term, 0, a.Len()+b.Len())
	ts = append(ts, a.Terms()...)
	ts = append(ts, b.Terms()...)
	return Str{s: ts}
}

// StrEq returns the boolean term for a == b.
func StrEq(a, b Str) *Term {
	if a.Len() != b.Len() {
		return falseT
	}
	if a.s == nil && b.s == nil {
		return KB(a.c == b.c)
	}
	r := trueT
	for i := 0; i < a.Len(); i++ {
		r = BAnd(r, Cmp(OpEq, a.Byte(i), b.Byte(i)))
		if r == falseT {
			return r
		}
	}
	return r
}

// StrLt returns the boolean term for a < b (byte-wise).
func StrLt(a, b Str) *Term {
	if a.s == nil && b.s == nil {
		return KB(a.c < b.c)
	}
	n := a.Len()
	if b.Len() < n {
		n = b.Len()
	}
	// from the end: lt_i = a[i]<b[i] || (a[i]==b[i] && lt_{i+1}); lt_n = len(a) < len(b)
	r := KB(a.Len() < b.Len())
	for i := n - 1; i >= 0; i-- {
		x, y := a.Byte(i), b.Byte(i)
		r = BOr(Cmp(OpUlt, x, y), BAnd(Cmp(OpEq, x, y), r))
	}
	return r
}

type Map struct {
	keys  []Value
	vals  []Value
	ktype types.Type
	// index of entries whose key is a concrete integer or string (fast path)
	cint map[uint64]int
	cstr map[string]int
	nsym int // number of entries with a non-concrete or non-indexable key
}

func concreteKey(k Value) (ik uint64, sk string, kind int) {
	switch x := k.(type) {
	case *Term:
		if x.IsConst() {
			return x.val, "", 1
		}
	case Str:
		if x.IsConcrete() {
			return 0, x.Concrete(), 2
		}
	}
	return 0, "", 0
}

func (mp *Map) reindex() {
	mp.cint = map[uint64]int{}
	mp.cstr = map[string]int{}
	mp.nsym = 0
	for i, k := range mp.keys {
		ik, sk, kind := concreteKey(k)
		switch kind {
		case 1:
			mp.cint[ik] = i
		case 2:
			mp.cstr[sk] = i
		default:
			mp.nsym++
		}
	}
}

type Iface struct {
	t types.Type
	v Value
}

func (i Iface) IsNil() bool { return i.t == nil }

type Closure struct {
	fn  *ssa.Function
	env []Value
}

// SymRef is the address of base[idx].path for a symbolic idx (already known in range).
type SymRef struct {
	elems []Value // addressable element cells: &elems[i]
	idx   *Term
	path  []int
}

// Opaque wraps a host object owned by an intrinsic.
type Opaque struct {
	kind string
	v    interface{}
}

// ---------------------------------------------------------------------------

func intWidth(t types.Type) (w int, signed bool, ok bool) {
	b, isB := t.Underlying().(*types.Basic)
	if !isB {
		return 0, false, false
	}
	switch b.Kind() {
	case types.Bool, types.UntypedBool:
		return 0, false, true
	case types.Int8:
		return 8, true, true
	case types.Int16:
		return 16, true, true
	case types.Int32, types.UntypedRune:
		return 32, true, true
	case types.Int64, types.Int, types.UntypedInt:
		return 64, true, true
	case types.Uint8:
		return 8, false, true
	case types.Uint16:
		return 16, false, true
	case types.Uint32:
		return 32, false, true
	case types.Uint64, types.Uint, types.Uintptr:
		return 64, false, true
	}
	return 0, false, false
}

type unsupported struct{ what string }

func unsupportedf(format string, args ...interface{}) {
	panic(unsupported{fmt.Sprintf(format, args...)})
}

// zero returns the zero value of type t.
func zero(t types.Type) Value {
	switch t := t.(type) {
	case *types.Basic:
		if t.Kind() == types.UntypedNil {
			panic("untyped nil has no zero value")
		}
		if t.Info()&types.IsString != 0 {
			return Str{}
		}
		if w, _, ok := intWidth(t); ok {
			return K(w, 0)
		}
		switch t.Kind() {
		case types.Float32, types.Float64, types.UntypedFloat:
			return Opaque{kind: "float", v: float64(0)}
		case types.Complex64, types.Complex128:
			return Opaque{kind: "complex", v: complex128(0)}
		case types.UnsafePointer:
			return (*Value)(nil)
		}
		unsupportedf("zero of basic type %s", t)
	case *types.Pointer:
		return (*Value)(nil)
	case *types.Array:
		a := make(Array, t.Len())
		for i := range a {
			a[i] = zero(t.Elem())
		}
		return a
	case *types.Named:
		return zero(t.Underlying())
	case *types.Alias:
		return zero(types.Unalias(t))
	case *types.Interface:
		return Iface{}
	case *types.Slice:
		return Slice{}
	case *types.Struct:
		s := make(Struct, t.NumFields())
		for i := range s {
			s[i] = zero(t.Field(i).Type())
		}
		return s
	case *types.Tuple:
		if t.Len() == 1 {
			return zero(t.At(0).Type())
		}
		s := make(Tuple, t.Len())
		for i := range s {
			s[i] = zero(t.At(i).Type())
		}
		return s
	case *types.Chan:
		return (*Chan)(nil)
	case *types.Map:
		return (*Map)(nil)
	case *types.Signature:
		return (*ssa.Function)(nil)
	case *types.TypeParam:
		unsupportedf("zero of type parameter")
	}
	unsupportedf("zero of %T", t)
	return nil
}

// copyVal returns a copy of v with aggregates duplicated.
func copyVal(v Value) Value {
	switch v := v.(type) {
	case Struct:
		n := make(Struct, len(v))
		for i, f := range v {
			n[i] = copyVal(f)
		}
		return n
	case Array:
		n := make(Array, len(v))
		for i, f := range v {
			n[i] = copyVal(f)
		}
		return n
	case Tuple:
		return v
	}
	return v
}

// valueEq returns the boolean term for x == y for comparable values.
func valueEq(x, y Value) *Term {
	switch x := x.(type) {
	case *Term:
		yt, ok := y.(*Term)
		if !ok {
			return falseT
		}
		if x.w != yt.w {
			return falseT
		}
		return Cmp(OpEq, x, yt)
	case Str:
		ys, ok := y.(Str)
		if !ok {
			return falseT
		}
		return StrEq(x, ys)
	case *Value:
		yp, ok := y.(*Value)
		return KB(ok && x == yp)
	case Struct:
		ys, ok := y.(Struct)
		if !ok || len(ys) != len(x) {
			return falseT
		}
		r := trueT
		for i := range x {
			r = BAnd(r, valueEq(x[i], ys[i]))
		}
		return r
	case Array:
		ys, ok := y.(Array)
		if !ok || len(ys) != len(x) {
			return falseT
		}
		r := trueT
		for i := range x {
			r = BAnd(r, valueEq(x[i], ys[i]))
		}
		return r
	case Iface:
		yi, ok := y.(Iface)
		if !ok {
			return falseT
		}
		if x.t == nil || yi.t == nil {
			return KB(x.t == nil && yi.t == nil)
		}
		if !types.Identical(x.t, yi.t) {
			return falseT
		}
		return valueEq(x.v, yi.v)
	case *Map:
		ym, ok := y.(*Map)
		return KB(ok && x == ym)
	case *Chan:
		yc, ok := y.(*Chan)
		return KB(ok && x == yc)
	case Slice:
		// only comparison against nil is legal
		ys, ok := y.(Slice)
		return KB(ok && x.a == nil && ys.a == nil)
	case *ssa.Function:
		yf, ok := y.(*ssa.Function)
		return KB(ok && x == yf)
	case *Closure:
		yc, ok := y.(*Closure)
		return KB(ok && x == yc)
	case Opaque:
		yo, ok := y.(Opaque)
		return KB(ok && x.kind == yo.kind && x.v == yo.v)
	case nil:
		return KB(y == nil)
	}
	unsupportedf("valueEq on %T", x)
	return nil
}

func isNilValue(v Value) bool {
	switch v := v.(type) {
	case *Value:
		return v == nil
	case Slice:
		return v.a == nil
	case *Map:
		return v == nil
	case *Chan:
		return v == nil
	case Iface:
		return v.t == nil
	case *ssa.Function:
		return v == nil
	case *Closure:
		return v == nil
	case nil:
		return true
	}
	return false
}

// showValue renders a value for diagnostics and evidence samples.
func showValue(v Value) string {
	return showValueD(v, 0)
}

func showValueD(v Value, d int) string {
	if d > 6 {
		return "…"
	}
	switch v := v.(type) {
	case *Term:
		if v.IsConst() {
			if v.w == 0 {
				return fmt.Sprint(v.val == 1)
			}
			return fmt.Sprint(v.val)
		}
		s := v.String()
		if len(s) > 80 {
			s = s[:80] + "…"
		}
		return s
	case Str:
		if v.IsConcrete() {
			return fmt.Sprintf("%q", v.Concrete())
		}
		var parts []string
		for _, t := range v.s {
			parts = append(parts, showValueD(t, d+1))
		}
		return "str[" + strings.Join(parts, " ") + "]"
	case *Value:
		if v == nil {
			return "nil"
		}
		return "&" + showValueD(*v, d+1)
	case Struct:
		var parts []string
		for _, f := range v {
			parts = append(parts, showValueD(f, d+1))
		}
		return "{" + strings.Join(parts, ", ") + "}"
	case Array:
		var parts []string
		for _, f := range v {
			parts = append(parts, showValueD(f, d+1))
		}
		return "[" + strings.Join(parts, ", ") + "]"
	case Tuple:
		var parts []string
		for _, f := range v {
			parts = append(parts, showValueD(f, d+1))
		}
		return "(" + strings.Join(parts, ", ") + ")"
	case Slice:
		if v.a == nil {
			return "nil[]"
		}
		var parts []string
		for i := 0; i < v.len && i < 16; i++ {
			parts = append(parts, showValueD(*v.At(i), d+1))
		}
		return fmt.Sprintf("[]%d/%d{%s}", v.len, v.cap, strings.Join(parts, ", "))
	case Iface:
		if v.t == nil {
			return "nil-iface"
		}
		return fmt.Sprintf("iface(%s:%s)", v.t, showValueD(v.v, d+1))
	case *Map:
		if v == nil {
			return "nil-map"
		}
		var parts []string
		for i := range v.keys {
			parts = append(parts, showValueD(v.keys[i], d+1)+":"+showValueD(v.vals[i], d+1))
		}
		return "map{" + strings.Join(parts, ", ") + "}"
	case nil:
		return "<nil>"
	}
	return fmt.Sprintf("%T", v)
}
