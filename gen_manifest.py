#!/usr/bin/env python3
# Regenerates MANIFEST.json from the table below. Properties without an entry are listed
# under not_applicable with the reason given in NA (or a default).
import json
props=[json.loads(l) for l in open('/verif/properties.jsonl')]
TECH="bounded symbolic execution of the real code's go/ssa + SMT (z3; cvc5/z3-5.1 portfolio), counterexamples replayed natively"
COMMON_NOTE=" Trusted base: roaring w64 model, bbolt transactional model, gob identity blob, ghost file system (each validated by native differential replays of sampled passing paths on every run), go/ssa lowering, the interpreter, z3. Bounded claim: see evidence coverage.bounds."
claimed={
 "C01": ("Reader: Execute/eval/GetCol/open executed symbolically with every stored row set an arbitrary 64-bit solver variable, every expression shape within the bound unfolded by forking, Count compared with the cardinality of a reference denotation (cardinality = uninterpreted function, counterexamples re-solved under true popcount). Writers: C05's harness (three writer paths, abstract hash). Two independent indexes queried concurrently (race analysis).", "§4 C01", "Outside: >64 rows, trees beyond depth 2 / arity 4, NUL in column names (known finding, see known_findings.json), hash collisions (assumed away)."),
 "C02": ("Execute/populateGroupBy/groupBy executed symbolically over arbitrary row sets for every group-by list up to the bound; result compared field by field with a reference cartesian product; append modelled after runtime.growslice so that slice aliasing is visible; a reused Query value on a second index (C08's harness).", "§4 C02", "Outside: lists longer than 5, >3 values per column."),
 "C03": ("Cache keys: for every template pair within the bound the solver decides whether the keys coincide for all leaf hashes and whether the meanings differ; any such pair is executed end-to-end. Histories: symbolic data, four cache configurations, two getters, every result compared with the cache-less reference.", "§4 C03", "Outside: deeper templates; eviction-dependent hit patterns inside a history."),
 "C05": ("AddRow/Flush of both writers, open, GetSchema, Execute executed symbolically for every short row sequence with abstract (arbitrary 64-bit) hashes for one column; all observations compared with the rows added; reopen rounds; a second write of the same writer; the big writer around its 1000-row commit; two independent writers used concurrently (race analysis).", "§4 C05", "Outside: >3 rows per symbolic sequence."),
 "C06": ("Every committed prefix of the writers' output transactions (commit log of the bbolt model; natively file snapshots taken at verif-tagged commit hooks) is opened by the real open code and must be rejected or answer like the complete index.", "§4 C06", "No symbolic data in this check (crash prefixes are enumerated from the commit log; the solver only confirms path feasibility). Outside: torn writes, SIGKILL timing, temp-database batches of the big writer."),
 "C07": ("Bounded symbolic execution of the real LRUCache code (NewLRUCache/Get/Put, container/list from go/ssa) over every Put/Get history up to the stated length with symbolic capacity, keys and bitmap sizes; constraint-set oracle checked in a final probe phase.", "§4 C07", "Outside: longer histories, sizes > 1 MiB, concurrent use (C04)."),
 "C08": ("One Query value executed repeatedly on two indexes (symbolic and concrete data); results compared with the C02 reference, caller-visible fields (group-by list, expression tree incl. operand slices with repeated operands) compared with the given ones after every execution; with a caching index and a caller-side change of the query between executions.", "§4 C08", "Outside: lists > 2, sharing between goroutines."),
 "C15": ("OpenIndex/OpenIndexFromBoltDatabase/options/Close executed on the bbolt model for each damage of a valid index and each option set; no panic path, lock released on every failure, Close callable three times, no creation of absent paths; opener flag arithmetic over symbolic flags.", "§4 C15", "Outside: combinations of damages, corrupt bbolt pages."),
 "C16": ("Flush onto pre-existing files of four kinds must fail and leave the ghost file's version unchanged; open/query/schema/close sequences must not change it (any write transaction on the model bumps it); exclusive-create flag arithmetic over symbolic flags; another process creating the output path at any file system operation of Flush (environment fork in the ghost file system) must win or lose cleanly; descriptor exhaustion (every open fails with EMFILE) must leave an existing output alone.", "§4 C16", "Outside: kernel O_EXCL semantics, read-only files."),
}

claimed.update({
 "C04": ("Happens-before (vector-clock) race detection over every access of the concurrent phase on every explored path and interleaving, confirmed natively by the race detector, plus bounded-preemption exploration of interleavings at synchronisation points with each result compared with the sequential reference.", "§4 C04", "Outside: >2 goroutines, more preemptions than stated, gRPC request goroutines, bbolt's internal locking."),
 "C09": ("ParseQuery with its lexer goroutine (coroutine semantics), strconv.Atoi and utf8 decoding executed symbolically on arbitrary short byte strings and on grammar-derived token sequences with one mutation and symbolic token contents; compared with an independent reference recogniser; multi-byte and broken UTF-8 sequences inside valid sentences; no panic, bounded termination, no goroutine left.", "§4 C09", "Outside: longer inputs than stated, more than one mutation."),
 "C10": ("QueryToString then ParseQuery (and again) executed symbolically over every small tree with symbolic first-leaf contents; both sides normalised; stability of the second text.", "§4 C10", "Symbolic placeholders up to 4 digits only (the %d/Atoi round trip does not bit-blast; 6 concrete boundary values up to MaxInt32 are added). Outside: deeper/wider trees."),
 "C11": ("fileConn.QueryContext / Prepare / fileStmt.Query / NumInput / ReplacePlaceholders / Execute executed with symbolic argument strings on a fixed index; rows compared with a reference evaluation; too few arguments must give an error, never a panic.", "§4 C11", "Outside: database/sql itself, integer arguments, the gRPC statement path."),
 "C12": ("updogDriver.Open/openFile, QueryContext/Prepare, newRows, rows.Columns/Next/ColumnType* executed over forked datasets, 10 query texts and 4 DSN option sets; rows compared with an independent SQL-style reference; bound arguments with repeated placeholders.", "§4 C12", "Datasets and query texts are enumerated by forking (small alphabet); the solver's role here is path feasibility. Outside: net/url, database/sql."),
 "C13": ("server.Query, convert.ToQuery/ToProtobufResult/ToResult executed with symbolic ids, counts and strings; batch order, id defaulting, all-or-error, field-by-field equality with Index.Execute; two requests in flight on one server (race analysis, bounded-preemption interleavings).", "§4 C13", "The grpc:// driver path runs against a stub client (the network and the real server process are outside). Outside: wire encoding, transport."),
 "C14": ("server.Query/convert.toExpr/Index.Execute executed on every request tree within the bound in which any wire-optional pointer may be nil; requests without queries and mixed batches; two concurrent requests; every panic path is a violation; follow-up probe must be correct.", "§4 C14", "Outside: protobuf decoding of raw bytes, deep nesting (stack)."),
 "C17": ("Driver handle cache (openFile, fileConn.Close/QueryContext) on the bbolt model whose exclusive file lock turns a second open of a held file into a blocked goroutine: all short sequential histories and all bounded-preemption interleavings of two goroutines; deadlock, panic, wrong rows or a lock left behind are violations.", "§4 C17", "Outside: database/sql's pool, >2 goroutines, >2 files."),
 "C18": ("Both AddRow implementations under 2 goroutines (and the big writer across its 1000-row commit): happens-before race detection over all accesses (race detector confirms natively) and bounded-preemption interleavings; ids a permutation, flushed index equals sequential insertion (unique tags, schema, grouping).", "§4 C18", "Outside: more goroutines, more preemptions."),
 "C19": ("createCmd/normalizeHeader and both writers executed with a contract-obeying csv stub and symbolic header/field bytes; both modes compared observationally with a reference index; record counts around the --big writer's 1000-row batches; every fault position must produce an error return without blocking and without touching an existing output.", "§4 C19", "Thinnest claim of the set: encoding/csv's parsing, cobra, exit codes are outside; the check covers the repo's own loop, normalisation and error paths."),
})
NA={}
checks=[]
for pid,(text,design,note) in claimed.items():
    checks.append({
      "property_id": pid,
      "quick_cmd": f"./check.sh {pid} quick",
      "thorough_cmd": f"./check.sh {pid} thorough",
      "evidence_file": f"/verif/evidence/{pid}.json",
      "replay_cmd_template": "./bin/vf replay {path}",
      "engine": "symgo",
      "level_claimed": {"category":"model_checking","text":text,"design_ref":design},
      "level_note": note+COMMON_NOTE,
      "technique": TECH,
    })
na=[{"property_id":p["id"],"reason":NA.get(p["id"],"harness not built yet in this round (engine and infrastructure exist; see DESIGN §4 for the planned harness)")} for p in props if p["id"] not in claimed]
import subprocess
hooks=subprocess.run(["git","-C","/repo","log","--format=%H %s"],capture_output=True,text=True).stdout.splitlines()
hook_commits=[l.split()[0] for l in hooks if l.split(' ',1)[1].startswith("verif hooks")]
m={
 "version":1,
 "setup_cmd":"cd /verif/engine && GOFLAGS=-mod=mod GOPROXY=off GOSUMDB=off GOTOOLCHAIN=local go build -o /verif/bin/vf ./cmd/vf",
 "hooks":{"guard":"verif","enable":"go build/test -tags verif (native replays are built with the tag on; the symbolic engine loads the tree with the tag off)","baseline_off_cmd":"cd /repo && GOFLAGS=-mod=mod GOPROXY=off go test -vet=off -count=1 ./...","source_commits":hook_commits,"add_only":True},
 "engines":[{"name":"symgo","path":"/verif/engine","serves_properties":sorted(claimed),"kind_free_text":"forking symbolic interpreter for go/ssa (re-execution with decision prefixes), SMT-LIB2 to persistent z3 processes, solver portfolio, dependency models loaded by package overlay, native replay of counterexamples and of sampled passing paths"}],
 "checks":checks,
 "not_applicable":na,
 "notes":"All checks are bounded: see each evidence file's coverage.bounds. INCONCLUSIVE lines (undecided obligations, unsupported code, harness not loading) exit 0 and are listed in the evidence; they are never counted as held."
}
json.dump(m,open('/verif/MANIFEST.json','w'),indent=1)
print("claimed",sorted(claimed),"na",[x["property_id"] for x in na])
