// Package roaring is the MODEL of github.com/RoaringBitmap/roaring v1.9.4 used by the
// symbolic engine: a bitmap is a short sequence of 64-bit words (one word, rows 0..63, for
// symbolic datasets). It is loaded in
// place of the real package through a go/packages overlay and executed by the same
// interpreter as the code under analysis. Contract: see DESIGN.md §2.2.
package roaring

import "errors"

// Intrinsics of the engine (no bodies: never compiled natively).
func symCard(bits uint64) uint64
func symSize(bits uint64) uint64
func symSerSize(bits uint64) uint64
func symOutOfBound(msg string)

// A Bitmap is a sequence of 64-bit words; word i holds rows 64i .. 64i+63. Symbolic
// datasets use a single word (rows 0..63: one solver variable per bitmap); concrete datasets
// may use up to maxWords words (rows < 64*maxWords), which lets harnesses cross the writers'
// 1000-row / 1000-value batch boundaries.
type Bitmap struct {
	w []uint64
}

const (
	blobTag  = 0xB1
	maxWords = 1056 // rows < 67584: lets a harness cross the 65536-row container boundary
)

func symIsConcrete(x uint64) bool

func New() *Bitmap       { return &Bitmap{} }
func NewBitmap() *Bitmap { return &Bitmap{} }

func BitmapOf(dat ...uint32) *Bitmap {
	b := New()
	for _, x := range dat {
		b.Add(x)
	}
	return b
}

func (rb *Bitmap) word(i int) uint64 {
	if i < len(rb.w) {
		return rb.w[i]
	}
	return 0
}

func (rb *Bitmap) grow(n int) {
	for len(rb.w) < n {
		rb.w = append(rb.w, 0)
	}
}

func maxLen(a, b *Bitmap) int {
	if len(a.w) > len(b.w) {
		return len(a.w)
	}
	return len(b.w)
}

func (rb *Bitmap) Add(x uint32) {
	i := int(x >> 6)
	if i >= maxWords {
		symOutOfBound("roaring model: row id beyond the model's universe")
	}
	rb.grow(i + 1)
	rb.w[i] |= uint64(1) << (x & 63)
}

func (rb *Bitmap) AddInt(x int) { rb.Add(uint32(x)) }

func (rb *Bitmap) CheckedAdd(x uint32) bool {
	had := rb.Contains(x)
	rb.Add(x)
	return !had
}

func (rb *Bitmap) Remove(x uint32) {
	i := int(x >> 6)
	if i < len(rb.w) {
		rb.w[i] &^= uint64(1) << (x & 63)
	}
}

func (rb *Bitmap) Contains(x uint32) bool {
	i := int(x >> 6)
	if i >= len(rb.w) {
		return false
	}
	return rb.w[i]&(uint64(1)<<(x&63)) != 0
}

func (rb *Bitmap) Clone() *Bitmap {
	n := &Bitmap{}
	n.w = append(n.w, rb.w...)
	return n
}

func (rb *Bitmap) Clear() { rb.w = nil }

func (rb *Bitmap) IsEmpty() bool {
	var all uint64
	for _, x := range rb.w {
		all |= x
	}
	return all == 0
}

// RunOptimize keeps the set but rewrites the containers in place: for everybody else looking
// at the bitmap it is a write (the model stores every word back).
func (rb *Bitmap) RunOptimize() {
	for i := range rb.w {
		rb.w[i] = rb.w[i]
	}
}

func (rb *Bitmap) GetCardinality() uint64 {
	var n uint64
	for _, x := range rb.w {
		n += symCard(x)
	}
	return n
}

func (rb *Bitmap) GetSizeInBytes() uint64 {
	if len(rb.w) == 0 {
		return symSize(0)
	}
	var n uint64
	for _, x := range rb.w {
		n += symSize(x)
	}
	return n
}

// GetSerializedSizeInBytes: the size of the serialised form is another function of the set
// than the in-memory size (no relation between the two is assumed).
func (rb *Bitmap) GetSerializedSizeInBytes() uint64 {
	if len(rb.w) == 0 {
		return symSerSize(0)
	}
	var n uint64
	for _, x := range rb.w {
		n += symSerSize(x)
	}
	return n
}

func (rb *Bitmap) Equals(o interface{}) bool {
	ob, ok := o.(*Bitmap)
	if !ok {
		return false
	}
	n := maxLen(rb, ob)
	for i := 0; i < n; i++ {
		if rb.word(i) != ob.word(i) {
			return false
		}
	}
	return true
}

// wordMask returns the bits of word i that lie in [rangeStart, rangeEnd).
func wordMask(i int, rangeStart, rangeEnd uint64) uint64 {
	lo := uint64(i) * 64
	var s, e uint64
	if rangeStart > lo {
		s = rangeStart - lo
	}
	if s > 64 {
		s = 64
	}
	if rangeEnd > lo {
		e = rangeEnd - lo
	}
	if e > 64 {
		e = 64
	}
	if s >= e {
		return 0
	}
	hi := uint64(1)<<e - 1 // e == 64 gives all ones (Go shift semantics)
	return hi &^ (uint64(1)<<s - 1)
}

// rangeWords is the number of words a range operation touches.
func rangeWords(have int, rangeEnd uint64) int {
	if !symIsConcrete(rangeEnd) {
		// symbolic range end: single-word universe (rows 0..63)
		if rangeEnd > 64 {
			symOutOfBound("roaring model: symbolic range end > 64")
		}
		if have < 1 {
			return 1
		}
		return have
	}
	need := int((rangeEnd + 63) / 64)
	if need > maxWords {
		symOutOfBound("roaring model: range end beyond the model's universe")
	}
	if need < have {
		return have
	}
	return need
}

// functional operations return fresh bitmaps

func And(a, b *Bitmap) *Bitmap {
	n := maxLen(a, b)
	r := &Bitmap{w: make([]uint64, n)}
	for i := 0; i < n; i++ {
		r.w[i] = a.word(i) & b.word(i)
	}
	return r
}

func Or(a, b *Bitmap) *Bitmap {
	n := maxLen(a, b)
	r := &Bitmap{w: make([]uint64, n)}
	for i := 0; i < n; i++ {
		r.w[i] = a.word(i) | b.word(i)
	}
	return r
}

func Xor(a, b *Bitmap) *Bitmap {
	n := maxLen(a, b)
	r := &Bitmap{w: make([]uint64, n)}
	for i := 0; i < n; i++ {
		r.w[i] = a.word(i) ^ b.word(i)
	}
	return r
}

func AndNot(a, b *Bitmap) *Bitmap {
	n := maxLen(a, b)
	r := &Bitmap{w: make([]uint64, n)}
	for i := 0; i < n; i++ {
		r.w[i] = a.word(i) &^ b.word(i)
	}
	return r
}

func Flip(bm *Bitmap, rangeStart, rangeEnd uint64) *Bitmap {
	r := bm.Clone()
	r.Flip(rangeStart, rangeEnd)
	return r
}

func FlipInt(bm *Bitmap, rangeStart, rangeEnd int) *Bitmap {
	return Flip(bm, uint64(rangeStart), uint64(rangeEnd))
}

// FastAnd of no bitmaps is empty, of one bitmap a clone (as v1.9.4).
func FastAnd(bitmaps ...*Bitmap) *Bitmap {
	if len(bitmaps) == 0 {
		return New()
	}
	r := bitmaps[0].Clone()
	for _, b := range bitmaps[1:] {
		r.And(b)
	}
	return r
}

func FastOr(bitmaps ...*Bitmap) *Bitmap {
	r := New()
	for _, b := range bitmaps {
		r.Or(b)
	}
	return r
}

func ParAnd(parallelism int, bitmaps ...*Bitmap) *Bitmap { return FastAnd(bitmaps...) }
func ParOr(parallelism int, bitmaps ...*Bitmap) *Bitmap  { return FastOr(bitmaps...) }

// in-place operations mutate the receiver

func (rb *Bitmap) And(o *Bitmap) {
	for i := range rb.w {
		rb.w[i] &= o.word(i)
	}
}

func (rb *Bitmap) Or(o *Bitmap) {
	rb.grow(len(o.w))
	for i := range o.w {
		rb.w[i] |= o.w[i]
	}
}

func (rb *Bitmap) Xor(o *Bitmap) {
	rb.grow(len(o.w))
	for i := range o.w {
		rb.w[i] ^= o.w[i]
	}
}

func (rb *Bitmap) AndNot(o *Bitmap) {
	for i := range rb.w {
		rb.w[i] &^= o.word(i)
	}
}

func (rb *Bitmap) Flip(rangeStart, rangeEnd uint64) {
	if rangeStart >= rangeEnd {
		return
	}
	n := rangeWords(len(rb.w), rangeEnd)
	rb.grow(n)
	for i := 0; i < n; i++ {
		rb.w[i] ^= wordMask(i, rangeStart, rangeEnd)
	}
}

func (rb *Bitmap) FlipInt(rangeStart, rangeEnd int) { rb.Flip(uint64(rangeStart), uint64(rangeEnd)) }

func (rb *Bitmap) AddRange(rangeStart, rangeEnd uint64) {
	if rangeStart >= rangeEnd {
		return
	}
	n := rangeWords(len(rb.w), rangeEnd)
	rb.grow(n)
	for i := 0; i < n; i++ {
		rb.w[i] |= wordMask(i, rangeStart, rangeEnd)
	}
}

func (rb *Bitmap) RemoveRange(rangeStart, rangeEnd uint64) {
	for i := range rb.w {
		rb.w[i] &^= wordMask(i, rangeStart, rangeEnd)
	}
}

func (rb *Bitmap) AndCardinality(o *Bitmap) uint64 { return And(rb, o).GetCardinality() }
func (rb *Bitmap) OrCardinality(o *Bitmap) uint64  { return Or(rb, o).GetCardinality() }
func (rb *Bitmap) Intersects(o *Bitmap) bool       { return !And(rb, o).IsEmpty() }

// serialisation: an opaque tagged blob (1 + 8 bytes per word); FromBuffer(ToBytes(b)) = b.

func (rb *Bitmap) ToBytes() ([]byte, error) {
	n := len(rb.w)
	if n == 0 {
		n = 1
	}
	b := make([]byte, 1+8*n)
	b[0] = blobTag
	for i := 0; i < n; i++ {
		x := rb.word(i)
		o := 1 + 8*i
		b[o] = byte(x >> 56)
		b[o+1] = byte(x >> 48)
		b[o+2] = byte(x >> 40)
		b[o+3] = byte(x >> 32)
		b[o+4] = byte(x >> 24)
		b[o+5] = byte(x >> 16)
		b[o+6] = byte(x >> 8)
		b[o+7] = byte(x)
	}
	return b, nil
}

func (rb *Bitmap) MarshalBinary() ([]byte, error) { return rb.ToBytes() }

func (rb *Bitmap) FromBuffer(buf []byte) (int64, error) {
	if len(buf) < 9 || (len(buf)-1)%8 != 0 || (len(buf)-1)/8 > maxWords {
		return 0, errors.New("roaring model: not a bitmap blob (length)")
	}
	if buf[0] != blobTag {
		return 0, errors.New("roaring model: not a bitmap blob (tag)")
	}
	n := (len(buf) - 1) / 8
	rb.w = make([]uint64, n)
	for i := 0; i < n; i++ {
		o := 1 + 8*i
		rb.w[i] = uint64(buf[o])<<56 | uint64(buf[o+1])<<48 | uint64(buf[o+2])<<40 | uint64(buf[o+3])<<32 |
			uint64(buf[o+4])<<24 | uint64(buf[o+5])<<16 | uint64(buf[o+6])<<8 | uint64(buf[o+7])
	}
	return int64(len(buf)), nil
}

func (rb *Bitmap) FromUnsafeBytes(buf []byte, cookieHeader ...byte) (int64, error) {
	return rb.FromBuffer(buf)
}

func (rb *Bitmap) UnmarshalBinary(buf []byte) error {
	_, err := rb.FromBuffer(buf)
	return err
}

func (rb *Bitmap) ToArray() []uint32 {
	var out []uint32
	for i, x := range rb.w {
		for j := uint32(0); j < 64; j++ {
			if x&(uint64(1)<<j) != 0 {
				out = append(out, uint32(i)*64+j)
			}
		}
	}
	return out
}
