package sym

import (
	"fmt"
	"go/token"
	"go/types"
	"golang.org/x/tools/go/ssa"
	"sort"
	"strings"
)

// G is an interpreted goroutine, backed by a host goroutine. Exactly one G runs at a time;
// control is handed over explicitly (coroutine semantics).
type G struct {
	id        int
	name      string
	wake      chan struct{}
	done      bool
	blocked   bool
	blockedOn string
	exited    chan struct{}
	held      map[*mutexState]int // lock -> mode (1 shared, 2 exclusive) for lockset analysis
	parent    *G
	vc        vclock
	helper    bool

	// channel hand-off slots
	recvVal Value
	recvOK  bool
}

type Chan struct {
	cap    int
	elem   types.Type
	buf    []Value
	closed bool
	recvq  []*G
	sendq  []*sendWait
}

type sendWait struct {
	g *G
	v Value
}

func (m *Machine) runnable() []*G {
	var rs []*G
	for _, g := range m.gs {
		if !g.done && !g.blocked {
			rs = append(rs, g)
		}
	}
	return rs
}

// park suspends the current host goroutine until its G is resumed.
func (m *Machine) park(g *G) {
	<-g.wake
	if m.killing && g.id != 0 {
		panic(killG{})
	}
	if m.abort != nil && g.id == 0 {
		a := *m.abort
		m.abort = nil
		panic(a.payload)
	}
}

type abortInfo struct {
	payload interface{}
}

// switchTo hands the baton from the current G to next and parks the current one.
func (m *Machine) switchTo(next *G) {
	cur := m.cur
	if next == cur {
		return
	}
	m.cur = next
	next.wake <- struct{}{}
	m.park(cur)
	m.cur = cur
}

// block marks the current G blocked and runs someone else; returns when unblocked.
func (m *Machine) block(reason string) {
	cur := m.cur
	cur.blocked = true
	cur.blockedOn = reason
	m.dispatch()
	// resumed
	cur.blockedOn = ""
}

// dispatch picks another runnable G while the current one is blocked or finished.
func (m *Machine) dispatch() {
	cur := m.cur
	rs := m.runnable()
	if len(rs) == 0 && m.quiescing {
		// everybody else is blocked or done: resume the main goroutine waiting at harness end
		g0 := m.gs[0]
		g0.blocked = false
		if cur == g0 {
			return
		}
		m.switchTo(g0)
		return
	}
	if len(rs) == 0 {
		// deadlock: every goroutine blocked
		var parts []string
		for _, g := range m.gs {
			if !g.done {
				parts = append(parts, fmt.Sprintf("g%d(%s) on %s", g.id, g.name, g.blockedOn))
			}
		}
		msg := "all goroutines blocked: " + strings.Join(parts, "; ")
		if cur.id == 0 {
			cur.blocked = false
			m.failHere("DEADLOCK", msg)
		}
		m.abortFrom(cur, func() { m.failHere("DEADLOCK", msg) })
		return
	}
	next := rs[0]
	if m.schedOn && len(rs) > 1 {
		if fam := familyOf(cur, rs); fam != nil {
			// a helper goroutine and its creator (parser and its private lexer) hand over to
			// each other without the scheduler having a say
			next = fam
		} else {
			next = rs[m.decideN("sched", len(rs), nil)]
		}
	}
	m.switchTo(next)
}

// familyOf returns a runnable child or the runnable parent of g, if any.
func familyOf(g *G, rs []*G) *G {
	for _, r := range rs {
		if r.parent == g && r.helper {
			return r
		}
	}
	if g.helper && g.parent != nil {
		for _, r := range rs {
			if r == g.parent {
				return r
			}
		}
	}
	return nil
}

// abortFrom transfers an engine abort raised in a non-main goroutine to g0.
func (m *Machine) abortFrom(cur *G, raise func()) {
	var payload interface{}
	func() {
		defer func() { payload = recover() }()
		raise()
	}()
	m.abort = &abortInfo{payload: payload}
	g0 := m.gs[0]
	g0.blocked = false
	m.cur = g0
	g0.wake <- struct{}{}
	// park this goroutine until teardown
	<-cur.wake
	panic(killG{})
}

// schedPoint lets the scheduler switch at a synchronisation point (schedule mode only).
func (m *Machine) schedPoint() {
	if !m.schedOn {
		return
	}
	rs := m.runnable()
	if len(rs) <= 1 {
		return
	}
	if m.preempts >= m.preemptBound {
		return // preemption bound reached: the current goroutine runs until it blocks or ends
	}
	// order: current first so that choice 0 = no context switch
	sort.SliceStable(rs, func(i, j int) bool { return rs[i] == m.cur && rs[j] != m.cur })
	c := m.decideN("sched", len(rs), nil)
	if rs[c] != m.cur {
		m.preempts++
		m.addSite(m.repoSite(token.NoPos))
		m.switchTo(rs[c])
		m.addSite(m.repoSite(token.NoPos))
	}
}

func (m *Machine) spawn(fr *frame, pos token.Pos, fn Value, args []Value) {
	g := &G{id: len(m.gs), wake: make(chan struct{}, 1), exited: make(chan struct{}), parent: m.cur}
	// goroutines started by code under test (not by the harness function itself) are helpers
	// of their creator
	g.helper = fr != nil && fr.fn != nil && !strings.HasPrefix(fr.fn.Name(), "Harness") && (fr.fn.Parent() == nil || !strings.HasPrefix(fr.fn.Parent().Name(), "Harness"))
	switch f := fn.(type) {
	case *Closure:
		g.name = f.fn.Name()
	default:
		g.name = fmt.Sprint(fn)
	}
	m.gs = append(m.gs, g)
	if m.lockset != nil && m.cur != nil {
		pv := m.vcOf(m.cur)
		g.vc = pv.copy()
		g.vc[g.id] = 1
		pv[m.cur.id]++
	}
	go func() {
		defer close(g.exited)
		defer func() { recover() }() // killG during teardown
		<-g.wake
		if m.killing {
			return
		}
		m.cur = g
		r := m.runG(fn, args, pos)
		g.done = true
		if m.killing {
			return
		}
		switch r := r.(type) {
		case nil:
			m.notifyAll()
			rs := m.runnable()
			if len(rs) == 0 && m.quiescing {
				g0 := m.gs[0]
				g0.blocked = false
				m.cur = g0
				g0.wake <- struct{}{}
				return
			}
			if len(rs) == 0 {
				var parts []string
				for _, og := range m.gs {
					if !og.done {
						parts = append(parts, fmt.Sprintf("g%d(%s) on %s", og.id, og.name, og.blockedOn))
					}
				}
				m.abortFromDone(g, func() { m.failHere("DEADLOCK", "all goroutines blocked: "+strings.Join(parts, "; ")) })
				return
			}
			next := rs[0]
			if fam := familyOf(g, rs); m.schedOn && len(rs) > 1 && fam != nil {
				next = fam
			} else if m.schedOn && len(rs) > 1 {
				var c int
				var pe interface{}
				func() {
					defer func() { pe = recover() }()
					c = m.decideN("sched", len(rs), nil)
				}()
				if pe != nil {
					m.abortFromDone(g, func() { panic(pe) })
					return
				}
				next = rs[c]
			}
			m.cur = next
			next.wake <- struct{}{}
		case killG:
			return
		case targetPanic:
			m.abortFromDone(g, func() {
				m.failHere("PANIC", "unrecovered panic in goroutine "+g.name+": "+m.panicString(r.v)+" at "+r.pos)
			})
		default:
			m.abortFromDone(g, func() { panic(r) })
		}
	}()
	if !g.helper {
		m.schedPoint()
	}
}

func (m *Machine) runG(fn Value, args []Value, pos token.Pos) (r interface{}) {
	defer func() { r = recover() }()
	m.call(nil, pos, fn, args)
	return nil
}

// waitUntil blocks the current goroutine until cond holds; notifyAll re-evaluates waiters.
func (m *Machine) waitUntil(cond func() bool, what string) {
	for !cond() {
		m.condWaiters = append(m.condWaiters, m.cur)
		m.block(what)
	}
}

func (m *Machine) notifyAll() {
	for _, g := range m.condWaiters {
		g.blocked = false
	}
	m.condWaiters = nil
}

func (m *Machine) abortFromDone(cur *G, raise func()) {
	var payload interface{}
	func() {
		defer func() { payload = recover() }()
		raise()
	}()
	m.abort = &abortInfo{payload: payload}
	g0 := m.gs[0]
	g0.blocked = false
	m.cur = g0
	g0.wake <- struct{}{}
}

// teardownGoroutines ends all host goroutines of the path.
func (m *Machine) teardownGoroutines() {
	m.killing = true
	for _, g := range m.gs {
		if g.id == 0 || g.exited == nil {
			continue
		}
		select {
		case <-g.exited:
			continue
		default:
		}
		select {
		case g.wake <- struct{}{}:
		default:
		}
		<-g.exited
	}
	m.killing = false
}

// ---------------------------------------------------------------------------
// channels

func (m *Machine) chanSend(fr *frame, c *Chan, v Value, pos token.Pos) {
	// channel operations are not preemption points: in the code under analysis channels
	// connect a parser to its private lexer goroutine only, so preempting there would
	// multiply equivalent schedules (a goroutine still yields when it blocks)
	if m.schedChans {
		m.schedPoint()
	}
	if c == nil {
		m.block("send on nil channel")
		return
	}
	if c.closed {
		panic(targetPanic{v: Iface{t: m.P.runtimeErrorString, v: MkStr("send on closed channel")}, pos: m.pos(pos)})
	}
	m.hbRelease(c)
	if len(c.recvq) > 0 {
		r := c.recvq[0]
		c.recvq = c.recvq[1:]
		r.recvVal = copyVal(v)
		r.recvOK = true
		r.blocked = false
		return
	}
	if len(c.buf) < c.cap {
		c.buf = append(c.buf, copyVal(v))
		m.notifyAll()
		return
	}
	sw := &sendWait{g: m.cur, v: copyVal(v)}
	c.sendq = append(c.sendq, sw)
	m.notifyAll() // select statements waiting on this channel re-evaluate
	m.block("chan send at " + m.pos(pos))
	if c.closed && sw.g != nil {
		panic(targetPanic{v: Iface{t: m.P.runtimeErrorString, v: MkStr("send on closed channel")}, pos: m.pos(pos)})
	}
}

func (m *Machine) chanRecv(fr *frame, c *Chan, pos token.Pos) (Value, bool) {
	if m.schedChans {
		m.schedPoint()
	}
	defer m.hbAcquire(c)
	if c == nil {
		m.block("receive on nil channel")
		return nil, false
	}
	if len(c.buf) > 0 {
		v := c.buf[0]
		c.buf = c.buf[1:]
		if len(c.sendq) > 0 {
			sw := c.sendq[0]
			c.sendq = c.sendq[1:]
			c.buf = append(c.buf, sw.v)
			sw.g.blocked = false
			sw.g = nil
		}
		return v, true
	}
	if len(c.sendq) > 0 {
		sw := c.sendq[0]
		c.sendq = c.sendq[1:]
		sw.g.blocked = false
		sw.g = nil
		return sw.v, true
	}
	if c.closed {
		return zero(c.elem), false
	}
	g := m.cur
	c.recvq = append(c.recvq, g)
	m.notifyAll()
	m.block("chan receive at " + m.pos(pos))
	return g.recvVal, g.recvOK
}

func (m *Machine) chanClose(fr *frame, c *Chan, pos token.Pos) {
	if c == nil {
		panic(targetPanic{v: Iface{t: m.P.runtimeErrorString, v: MkStr("close of nil channel")}, pos: m.pos(pos)})
	}
	if c.closed {
		panic(targetPanic{v: Iface{t: m.P.runtimeErrorString, v: MkStr("close of closed channel")}, pos: m.pos(pos)})
	}
	m.hbRelease(c)
	c.closed = true
	m.notifyAll()
	for _, r := range c.recvq {
		r.recvVal = zero(c.elem)
		r.recvOK = false
		r.blocked = false
	}
	c.recvq = nil
	for _, sw := range c.sendq {
		sw.g.blocked = false
	}
	c.sendq = nil
}

// ---------------------------------------------------------------------------
// mutexes (sync.Mutex / sync.RWMutex as intrinsics)

type mutexState struct {
	writer  *G
	readers map[*G]int
	name    string
	// goroutines blocked in Lock: as in sync.RWMutex, a pending writer makes new readers wait
	// (a recursive RLock behind a waiting writer deadlocks)
	waitingWriters int
}

func (m *Machine) mutexOf(p *Value) *mutexState {
	ms := m.mutexes[p]
	if ms == nil {
		ms = &mutexState{readers: map[*G]int{}, name: fmt.Sprintf("mu%d", len(m.mutexes))}
		m.mutexes[p] = ms
	}
	return ms
}

func (m *Machine) lockMutex(p *Value, exclusive bool, what string) {
	m.schedPoint()
	ms := m.mutexOf(p)
	if exclusive {
		if !(ms.writer == nil && len(ms.readers) == 0) {
			ms.waitingWriters++
			m.waitUntil(func() bool { return ms.writer == nil && len(ms.readers) == 0 }, what)
			ms.waitingWriters--
		}
		ms.writer = m.cur
		m.hbAcquire(ms)
		m.hbAcquire(&ms.readers) // readers' releases
	} else {
		m.waitUntil(func() bool { return ms.writer == nil && ms.waitingWriters == 0 }, what)
		ms.readers[m.cur]++
		m.hbAcquire(ms) // writers' releases only
	}
	if m.cur.held == nil {
		m.cur.held = map[*mutexState]int{}
	}
	if exclusive {
		m.cur.held[ms] = 2
	} else if m.cur.held[ms] < 2 {
		m.cur.held[ms] = 1
	}
}

func (m *Machine) unlockMutex(fr *frame, p *Value, exclusive bool) {
	ms := m.mutexOf(p)
	if exclusive {
		if ms.writer == nil {
			panic(targetPanic{v: Iface{t: m.P.runtimeErrorString, v: MkStr("sync: unlock of unlocked mutex")}, pos: "sync"})
		}
		m.hbRelease(ms)
		ms.writer = nil
	} else {
		if len(ms.readers) == 0 {
			panic(targetPanic{v: Iface{t: m.P.runtimeErrorString, v: MkStr("sync: RUnlock of unlocked RWMutex")}, pos: "sync"})
		}
		m.hbRelease(&ms.readers)
		// Go allows another goroutine to RUnlock; prefer the current one
		g := m.cur
		if ms.readers[g] == 0 {
			for k := range ms.readers {
				g = k
				break
			}
		}
		ms.readers[g]--
		if ms.readers[g] == 0 {
			delete(ms.readers, g)
		}
	}
	if m.cur.held != nil {
		if exclusive || ms.readers[m.cur] == 0 {
			delete(m.cur.held, ms)
		}
	}
	m.notifyAll()
	m.schedPoint()
}

// ---------------------------------------------------------------------------
// Race detection by happens-before (vector clocks, in the style of FastTrack / the Go race
// detector), active between verifLockset(true) and verifLockset(false). Every goroutine
// carries a vector clock; mutex unlock/lock, RWMutex (readers acquire the writers' releases,
// a writer acquires everybody's), atomics, channel operations, WaitGroup Done/Wait and
// goroutine start are release/acquire edges. Every access to a memory cell, map or slice
// backing array is checked against the last write and the reads since: two accesses to the
// same location, at least one a write, not ordered by happens-before, are a data race.
// Unlike a timing-based check this does not need the two accesses to be adjacent in the
// explored schedule, so every explored interleaving stands for all timings with the same
// synchronisation order. Reports are confirmed natively with the race detector.

type vclock map[int]int

func (v vclock) copy() vclock {
	n := vclock{}
	for k, x := range v {
		n[k] = x
	}
	return n
}

func (v vclock) join(o vclock) {
	for k, x := range o {
		if x > v[k] {
			v[k] = x
		}
	}
}

type epoch struct {
	g, c int
	pos  string
	site string
}

type cellInfo struct {
	w     epoch
	hasW  bool
	reads map[int]epoch
	// accesses through sync/atomic: never in conflict with each other, but in conflict with
	// plain accesses that are not ordered by happens-before (as for the Go race detector)
	aw     epoch
	hasAW  bool
	areads map[int]epoch
}

type locksetState struct {
	cells map[interface{}]*cellInfo
	syncs map[interface{}]vclock // release clocks of sync objects
	races []string
	seen  map[string]bool
	sites []string // statements of the code under test forming the reported pairs
}

func newLockset() *locksetState {
	return &locksetState{cells: map[interface{}]*cellInfo{}, syncs: map[interface{}]vclock{}, seen: map[string]bool{}}
}

func (m *Machine) vcOf(g *G) vclock {
	if g.vc == nil {
		g.vc = vclock{g.id: 1}
	}
	return g.vc
}

// hbRelease: the current goroutine publishes its clock on a sync object.
func (m *Machine) hbRelease(obj interface{}) {
	if m.lockset == nil || m.cur == nil {
		return
	}
	vc := m.vcOf(m.cur)
	s := m.lockset.syncs[obj]
	if s == nil {
		s = vclock{}
		m.lockset.syncs[obj] = s
	}
	s.join(vc)
	vc[m.cur.id]++
}

// hbAcquire: the current goroutine learns what was published on a sync object.
func (m *Machine) hbAcquire(obj interface{}) {
	if m.lockset == nil || m.cur == nil {
		return
	}
	if s := m.lockset.syncs[obj]; s != nil {
		m.vcOf(m.cur).join(s)
	}
}

func (ls *locksetState) allocated(m *Machine, cell *Value)        {}
func (ls *locksetState) allocatedObj(m *Machine, obj interface{}) {}

func (ls *locksetState) access(m *Machine, cell interface{}, write bool, pos token.Pos) {
	if m.cur == nil || m.raceExempt > 0 {
		return
	}
	g := m.cur.id
	vc := m.vcOf(m.cur)
	ci := ls.cells[cell]
	if ci == nil {
		ci = &cellInfo{reads: map[int]epoch{}}
		ls.cells[cell] = ci
	}
	where := ""
	site := m.repoSite(pos)
	report := func(kind string, other epoch) {
		if where == "" {
			where = m.pos(pos)
			if pos == token.NoPos && site != "" {
				where = shortFile(site) // an access made by an intrinsic: name the calling statement
			}
		}
		for _, s := range []string{site, other.site} {
			dup := s == ""
			for _, x := range ls.sites {
				dup = dup || x == s
			}
			if !dup && len(ls.sites) < 8 {
				ls.sites = append(ls.sites, s)
			}
		}
		msg := kind + " at " + where + " (goroutine " + fmt.Sprint(g) + ") is not ordered after the " + other.pos + " (goroutine " + fmt.Sprint(other.g) + ")"
		if !ls.seen[msg] {
			ls.seen[msg] = true
			ls.races = append(ls.races, msg)
		}
	}
	if ci.hasW && ci.w.g != g && ci.w.c > vc[ci.w.g] {
		if write {
			report("write", epoch{ci.w.g, ci.w.c, "write at " + ci.w.pos, ci.w.site})
		} else {
			report("read", epoch{ci.w.g, ci.w.c, "write at " + ci.w.pos, ci.w.site})
		}
	}
	if ci.hasAW && ci.aw.g != g && ci.aw.c > vc[ci.aw.g] {
		kind := "read"
		if write {
			kind = "write"
		}
		report(kind, epoch{ci.aw.g, ci.aw.c, "atomic write at " + ci.aw.pos, ci.aw.site})
	}
	if write {
		for rg, r := range ci.areads {
			if rg != g && r.c > vc[rg] {
				report("write", epoch{rg, r.c, "atomic read at " + r.pos, r.site})
			}
		}
	}
	if write {
		for rg, r := range ci.reads {
			if rg != g && r.c > vc[rg] {
				report("write", epoch{rg, r.c, "read at " + r.pos, r.site})
			}
		}
		ci.w = epoch{g, vc[g], m.posOrSite(pos, site), site}
		ci.hasW = true
		ci.reads = map[int]epoch{}
	} else {
		ci.reads[g] = epoch{g, vc[g], m.posOrSite(pos, site), site}
	}
}

// accessAtomic records an access made through sync/atomic: it conflicts with plain accesses of
// other goroutines that are not ordered before it, never with other atomic accesses.
func (ls *locksetState) accessAtomic(m *Machine, cell interface{}, write bool) {
	if m.cur == nil || m.raceExempt > 0 || !m.locksetOn {
		return
	}
	g := m.cur.id
	vc := m.vcOf(m.cur)
	ci := ls.cells[cell]
	if ci == nil {
		ci = &cellInfo{reads: map[int]epoch{}}
		ls.cells[cell] = ci
	}
	site := m.repoSite(token.NoPos)
	where := site
	if where == "" {
		where = "?"
	} else {
		where = shortFile(where)
	}
	report := func(kind string, other epoch) {
		msg := kind + " at " + where + " (goroutine " + fmt.Sprint(g) + ") is not ordered after the " + other.pos + " (goroutine " + fmt.Sprint(other.g) + ")"
		if !ls.seen[msg] {
			ls.seen[msg] = true
			ls.races = append(ls.races, msg)
		}
		for _, s := range []string{site, other.site} {
			dup := s == ""
			for _, x := range ls.sites {
				dup = dup || x == s
			}
			if !dup && len(ls.sites) < 8 {
				ls.sites = append(ls.sites, s)
			}
		}
	}
	kind := "atomic read"
	if write {
		kind = "atomic write"
	}
	if ci.hasW && ci.w.g != g && ci.w.c > vc[ci.w.g] {
		report(kind, epoch{ci.w.g, ci.w.c, "write at " + ci.w.pos, ci.w.site})
	}
	if write {
		for rg, r := range ci.reads {
			if rg != g && r.c > vc[rg] {
				report(kind, epoch{rg, r.c, "read at " + r.pos, r.site})
			}
		}
		ci.aw = epoch{g, vc[g], where, site}
		ci.hasAW = true
	} else {
		if ci.areads == nil {
			ci.areads = map[int]epoch{}
		}
		ci.areads[g] = epoch{g, vc[g], where, site}
	}
}

// candidates lists the races found so far.
func (ls *locksetState) candidates() []string {
	out := append([]string(nil), ls.races...)
	sort.Strings(out)
	if len(out) > 4 {
		out = out[:4]
	}
	return out
}

// selectOp implements the select statement: a ready case is taken (in schedule mode the
// choice among several ready cases is a decision), otherwise default, otherwise the goroutine
// waits until a case becomes ready.
func (m *Machine) selectOp(fr *frame, instr *ssa.Select) Value {
	type st struct {
		c    *Chan
		send bool
		v    Value
	}
	var states []st
	for _, s := range instr.States {
		c, _ := fr.get(s.Chan).(*Chan)
		x := st{c: c, send: s.Dir == types.SendOnly}
		if x.send {
			x.v = fr.get(s.Send)
		}
		states = append(states, x)
	}
	readyIdx := func() []int {
		var r []int
		for i, s := range states {
			if s.c == nil {
				continue
			}
			if s.send {
				if s.c.closed || len(s.c.recvq) > 0 || len(s.c.buf) < s.c.cap {
					r = append(r, i)
				}
			} else if len(s.c.buf) > 0 || len(s.c.sendq) > 0 || s.c.closed {
				r = append(r, i)
			}
		}
		return r
	}
	result := func(chosen int, recv Value, ok bool) Value {
		t := Tuple{K(64, uint64(int64(chosen))), KB(ok)}
		for i, s := range instr.States {
			if s.Dir == types.RecvOnly {
				if i == chosen && recv != nil {
					t = append(t, recv)
				} else {
					t = append(t, zero(s.Chan.Type().Underlying().(*types.Chan).Elem()))
				}
			}
		}
		return t
	}
	for {
		m.schedPoint()
		if r := readyIdx(); len(r) > 0 {
			i := r[0]
			if m.schedOn && len(r) > 1 {
				i = r[m.decideN("select", len(r), nil)]
			}
			if states[i].send {
				m.chanSend(fr, states[i].c, states[i].v, instr.Pos())
				return result(i, nil, false)
			}
			v, ok := m.chanRecv(fr, states[i].c, instr.Pos())
			return result(i, v, ok)
		}
		if !instr.Blocking {
			return result(-1, nil, false)
		}
		m.condWaiters = append(m.condWaiters, m.cur)
		m.block("select at " + m.pos(instr.Pos()))
	}
}

func (m *Machine) posOrSite(pos token.Pos, site string) string {
	if pos == token.NoPos && site != "" {
		return shortFile(site)
	}
	return m.pos(pos)
}
