package updog

import (
	"encoding/binary"

	"go.etcd.io/bbolt"
)

// Fixture: an index file whose schema is produced by the real writer and whose stored row
// sets are arbitrary (symbolic) — "any dataset of up to 64 rows" as one solver variable per
// (column,value).

type verifData struct {
	path string
	n    uint32     // number of rows, 0..64
	cols []string   // column names
	vals [][]string // values per column
	sets [][]uint64 // rows holding (col,val): subset of [0,n), pairwise disjoint within a column
}

func verifMask(n uint32) uint64 {
	return uint64(1)<<n - 1 // n == 64 gives all ones
}

// verifNewData draws a symbolic dataset for the given schema.
func verifNewData(name string, cols []string, vals [][]string) *verifData {
	return verifNewDataN(name, cols, vals, -1)
}

// verifNewDataN: rows < 0 draws a symbolic row count 0..64, otherwise the count is fixed
// (harnesses whose code under test never looks at the row count use 64).
func verifNewDataN(name string, cols []string, vals [][]string, rows int) *verifData {
	d := &verifData{path: verifTempPath(name), cols: cols, vals: vals}
	if rows < 0 {
		d.n = verifU32("nrows")
		verifAssume(d.n <= 64)
	} else {
		d.n = uint32(rows)
	}
	m := verifMask(d.n)
	for ci := range cols {
		var used uint64
		var row []uint64
		for range vals[ci] {
			s := verifU64("rows")
			verifAssume(s&^m == 0)
			verifAssume(s&used == 0)
			used |= s
			row = append(row, s)
		}
		d.sets = append(d.sets, row)
	}
	return d
}

// build writes the index file: schema through the real IndexWriter, then the stored bitmaps
// and the row counter are overwritten with the dataset's symbolic content.
func (d *verifData) build() {
	w := NewIndexWriter(d.path)
	for ci, c := range d.cols {
		for _, v := range d.vals[ci] {
			if _, err := w.AddRow(map[string]string{c: v}); err != nil {
				panic(err)
			}
		}
	}
	if err := w.Flush(); err != nil {
		panic(err)
	}
	db, err := bbolt.Open(d.path, 0644, nil)
	if err != nil {
		panic(err)
	}
	err = db.Update(func(tx *bbolt.Tx) error {
		b := tx.Bucket([]byte("data"))
		for ci, c := range d.cols {
			for vi, v := range d.vals[ci] {
				var kb [8]byte
				binary.BigEndian.PutUint64(kb[:], getValueIndex(c, v))
				blob, err := verifBitmap(d.sets[ci][vi]).ToBytes()
				if err != nil {
					return err
				}
				if err := b.Put(append(append([]byte{}, keyPrefixValue...), kb[:]...), blob); err != nil {
					return err
				}
			}
		}
		var nb [4]byte
		binary.BigEndian.PutUint32(nb[:], d.n)
		return b.Put(keyNextRowID, nb[:])
	})
	if err != nil {
		panic(err)
	}
	if err := db.Close(); err != nil {
		panic(err)
	}
}

// set returns the rows holding col=val (0 for a value that does not occur).
func (d *verifData) set(col, val string) (rows uint64, colKnown bool) {
	for ci, c := range d.cols {
		if c != col {
			continue
		}
		for vi, v := range d.vals[ci] {
			if v == val {
				return d.sets[ci][vi], true
			}
		}
		return 0, true
	}
	return 0, false
}

// open opens the fixture with the given configuration: preload, cache (nil = none).
func (d *verifData) open(preload bool, cache Cache) *Index {
	var opts []IndexOption
	if preload {
		opts = append(opts, WithPreloadedData())
	}
	if cache != nil {
		opts = append(opts, WithCache(cache))
	}
	idx, err := OpenIndex(d.path, opts...)
	if err != nil {
		// the fixture itself was rejected: nothing can be concluded from this path
		verifNote("fixture rejected by OpenIndex")
		verifAssume(false)
	}
	return idx
}

// ---------------------------------------------------------------------------
// expression generation by forking, with the reference denotation alongside

type verifLeaf struct{ col, val string }

type verifExpr struct {
	e       Expression
	den     uint64 // rows satisfying e (reference semantics, raw uint64 operations)
	unknown bool   // tests a column that occurs in no row
}

func verifGenLeaf(d *verifData, leaves []verifLeaf) verifExpr {
	l := leaves[verifChoice("leaf", len(leaves))]
	rows, known := d.set(l.col, l.val)
	return verifExpr{e: &ExprEqual{Column: l.col, Value: l.val}, den: rows, unknown: !known}
}

// verifGenExpr unfolds every expression shape up to the given depth and arity.
func verifGenExpr(d *verifData, leaves []verifLeaf, depth, maxArity int) verifExpr {
	kind := 0
	if depth > 0 {
		kind = verifChoice("kind", 4)
	}
	switch kind {
	case 0:
		return verifGenLeaf(d, leaves)
	case 1:
		x := verifGenExpr(d, leaves, depth-1, maxArity)
		return verifExpr{e: &ExprNot{Expr: x.e}, den: ^x.den & verifMask(d.n), unknown: x.unknown}
	}
	arity := 1 + verifChoice("arity", maxArity)
	var es []Expression
	var den uint64
	unknown := false
	for i := 0; i < arity; i++ {
		x := verifGenExpr(d, leaves, depth-1, maxArity)
		es = append(es, x.e)
		unknown = unknown || x.unknown
		switch {
		case i == 0:
			den = x.den
		case kind == 2:
			den &= x.den
		default:
			den |= x.den
		}
	}
	if kind == 2 {
		return verifExpr{e: &ExprAnd{Exprs: es}, den: den, unknown: unknown}
	}
	return verifExpr{e: &ExprOr{Exprs: es}, den: den, unknown: unknown}
}
