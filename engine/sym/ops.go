package sym

import (
	"fmt"
	"go/constant"
	"go/token"
	"go/types"
	"unicode/utf8"

	"golang.org/x/tools/go/ssa"
)

func constantString(c *ssa.Const) string { return constant.StringVal(c.Value) }
func constantBool(c *ssa.Const) bool     { return constant.BoolVal(c.Value) }

func (m *Machine) unop(fr *frame, instr *ssa.UnOp, x Value) Value {
	switch instr.Op {
	case token.ARROW:
		v, ok := m.chanRecv(fr, x.(*Chan), instr.Pos())
		if instr.CommaOk {
			return Tuple{v, KB(ok)}
		}
		return v
	case token.SUB:
		if t, ok := x.(*Term); ok {
			return Neg(t)
		}
		if o, ok := x.(Opaque); ok && o.kind == "float" {
			return Opaque{kind: "float", v: -o.v.(float64)}
		}
	case token.MUL:
		return m.load(fr, instr.Pos(), x)
	case token.NOT:
		return BNot(x.(*Term))
	case token.XOR:
		return Not(x.(*Term))
	}
	unsupportedf("unop %s on %T", instr.Op, x)
	return nil
}

func (m *Machine) binop(fr *frame, pos token.Pos, op token.Token, t types.Type, x, y Value) Value {
	switch xv := x.(type) {
	case *Term:
		yv, ok := y.(*Term)
		if !ok {
			break
		}
		if xv.w == 0 {
			switch op {
			case token.EQL:
				return Cmp(OpEq, xv, yv)
			case token.NEQ:
				return BNot(Cmp(OpEq, xv, yv))
			case token.AND:
				return BAnd(xv, yv)
			case token.OR:
				return BOr(xv, yv)
			}
			unsupportedf("bool binop %s", op)
		}
		_, signed, _ := intWidth(t)
		switch op {
		case token.ADD:
			return Bin(OpAdd, xv, yv)
		case token.SUB:
			return Bin(OpSub, xv, yv)
		case token.MUL:
			return Bin(OpMul, xv, yv)
		case token.QUO, token.REM:
			if m.branch(Cmp(OpEq, yv, K(int(yv.w), 0))) {
				m.runtimePanic(fr, pos, "integer divide by zero")
			}
			if op == token.QUO {
				if signed {
					return Bin(OpSDiv, xv, yv)
				}
				return Bin(OpUDiv, xv, yv)
			}
			if signed {
				return Bin(OpSRem, xv, yv)
			}
			return Bin(OpURem, xv, yv)
		case token.AND:
			return Bin(OpAnd, xv, yv)
		case token.OR:
			return Bin(OpOr, xv, yv)
		case token.XOR:
			return Bin(OpXor, xv, yv)
		case token.AND_NOT:
			return Bin(OpAnd, xv, Not(yv))
		case token.SHL, token.SHR:
			return m.shift(fr, pos, op, signed, xv, yv)
		case token.EQL:
			return Cmp(OpEq, xv, yv)
		case token.NEQ:
			return BNot(Cmp(OpEq, xv, yv))
		case token.LSS:
			if signed {
				return Cmp(OpSlt, xv, yv)
			}
			return Cmp(OpUlt, xv, yv)
		case token.LEQ:
			if signed {
				return Cmp(OpSle, xv, yv)
			}
			return Cmp(OpUle, xv, yv)
		case token.GTR:
			if signed {
				return Cmp(OpSlt, yv, xv)
			}
			return Cmp(OpUlt, yv, xv)
		case token.GEQ:
			if signed {
				return Cmp(OpSle, yv, xv)
			}
			return Cmp(OpUle, yv, xv)
		}
	case Str:
		yv, ok := y.(Str)
		if !ok {
			break
		}
		switch op {
		case token.ADD:
			return StrConcat(xv, yv)
		case token.EQL:
			return StrEq(xv, yv)
		case token.NEQ:
			return BNot(StrEq(xv, yv))
		case token.LSS:
			return StrLt(xv, yv)
		case token.GTR:
			return StrLt(yv, xv)
		case token.LEQ:
			return BNot(StrLt(yv, xv))
		case token.GEQ:
			return BNot(StrLt(xv, yv))
		}
	case Opaque:
		if xv.kind == "float" {
			yo, ok := y.(Opaque)
			if ok && yo.kind == "float" {
				a, b := xv.v.(float64), yo.v.(float64)
				switch op {
				case token.ADD:
					return Opaque{"float", a + b}
				case token.SUB:
					return Opaque{"float", a - b}
				case token.MUL:
					return Opaque{"float", a * b}
				case token.QUO:
					return Opaque{"float", a / b}
				case token.LSS:
					return KB(a < b)
				case token.GTR:
					return KB(a > b)
				case token.EQL:
					return KB(a == b)
				case token.NEQ:
					return KB(a != b)
				case token.LEQ:
					return KB(a <= b)
				case token.GEQ:
					return KB(a >= b)
				}
			}
		}
	}
	switch op {
	case token.EQL:
		return valueEq(x, y)
	case token.NEQ:
		return BNot(valueEq(x, y))
	}
	unsupportedf("binop %s on %T,%T at %s", op, x, y, m.pos(pos))
	return nil
}

func (m *Machine) shift(fr *frame, pos token.Pos, op token.Token, signed bool, x, y *Term) Value {
	w := int(x.w)
	// the shift count is treated as unsigned; negative signed counts panic in Go, but
	// go/ssa converts the operand so that we only see its bits. A negative signed count
	// would appear as a huge unsigned value here (result 0 / sign fill) — we make that a panic
	// check only when the count is symbolic and signed, which the repo code does not do.
	var amt *Term
	var big *Term
	if int(y.w) <= w {
		amt = Zext(y, w)
		big = falseT
	} else {
		amt = Extract(y, 0, w)
		big = Cmp(OpUle, K(int(y.w), uint64(w)), y)
	}
	switch op {
	case token.SHL:
		r := Bin(OpShl, x, amt)
		return Ite(big, K(w, 0), r)
	default:
		if signed {
			r := Bin(OpAShr, x, amt)
			fill := Bin(OpAShr, x, K(w, uint64(w-1)))
			return Ite(big, fill, r)
		}
		r := Bin(OpLShr, x, amt)
		return Ite(big, K(w, 0), r)
	}
}

func (m *Machine) conv(fr *frame, tDst, tSrc types.Type, x Value) Value {
	ud := tDst.Underlying()
	us := tSrc.Underlying()
	switch xv := x.(type) {
	case *Term:
		if db, ok := ud.(*types.Basic); ok {
			if dw, _, ok := intWidth(db); ok && dw > 0 {
				_, ssigned, _ := intWidth(us)
				if int(xv.w) >= dw {
					return Extract(xv, 0, dw)
				}
				if ssigned {
					return Sext(xv, dw)
				}
				return Zext(xv, dw)
			}
			if db.Info()&types.IsString != 0 {
				// integer -> string (rune)
				if !xv.IsConst() {
					unsupportedf("string(symbolic rune)")
				}
				r := rune(sx(xv.val, xv.w))
				return MkStr(string(r))
			}
			if db.Info()&types.IsFloat != 0 {
				if !xv.IsConst() {
					return Opaque{"float", float64(0)}
				}
				_, ssigned, _ := intWidth(us)
				if ssigned {
					return Opaque{"float", float64(sx(xv.val, xv.w))}
				}
				return Opaque{"float", float64(xv.val)}
			}
		}
		if _, ok := ud.(*types.Pointer); ok {
			unsupportedf("integer to pointer conversion")
		}
	case Str:
		switch d := ud.(type) {
		case *types.Basic:
			if d.Info()&types.IsString != 0 {
				return xv
			}
		case *types.Slice:
			if eb, ok := d.Elem().Underlying().(*types.Basic); ok {
				switch eb.Kind() {
				case types.Byte:
					ts := xv.Terms()
					b := &Backing{v: make([]Value, len(ts)), esize: 1}
					for i, t := range ts {
						b.v[i] = t
					}
					// string -> []byte yields a non-nil slice even when empty
					return Slice{a: b, off: 0, len: len(ts), cap: len(ts)}
				case types.Rune:
					if !xv.IsConcrete() {
						unsupportedf("[]rune(symbolic string)")
					}
					rs := []rune(xv.Concrete())
					b := &Backing{v: make([]Value, len(rs)), esize: 4}
					for i, r := range rs {
						b.v[i] = K(32, uint64(r))
					}
					return Slice{a: b, off: 0, len: len(rs), cap: len(rs)}
				}
			}
		}
	case Slice:
		if db, ok := ud.(*types.Basic); ok && db.Info()&types.IsString != 0 {
			se := us.(*types.Slice).Elem().Underlying().(*types.Basic)
			switch se.Kind() {
			case types.Byte:
				ts := make([]*Term, xv.len)
				for i := 0; i < xv.len; i++ {
					ts[i] = (*xv.At(i)).(*Term)
				}
				return StrFromTerms(ts)
			case types.Rune:
				var out []byte
				for i := 0; i < xv.len; i++ {
					t := (*xv.At(i)).(*Term)
					if !t.IsConst() {
						unsupportedf("string([]rune) with symbolic rune")
					}
					out = utf8.AppendRune(out, rune(sx(t.val, t.w)))
				}
				return MkStr(string(out))
			}
		}
	case *Value:
		// pointer conversions (unsafe.Pointer etc.)
		return xv
	case Opaque:
		if xv.kind == "float" {
			if db, ok := ud.(*types.Basic); ok {
				if db.Info()&types.IsFloat != 0 {
					return xv
				}
				if dw, _, ok := intWidth(db); ok && dw > 0 {
					return K(dw, uint64(int64(xv.v.(float64))))
				}
			}
		}
	}
	unsupportedf("conversion %s -> %s (%T)", tSrc, tDst, x)
	return nil
}

// ---------------------------------------------------------------------------
// builtins

func (m *Machine) callBuiltin(caller *frame, callpos token.Pos, fn *ssa.Builtin, args []Value) Value {
	switch fn.Name() {
	case "append":
		if len(args) == 1 {
			return args[0]
		}
		dst := args[0].(Slice)
		elemT := fn.Type().(*types.Signature).Params().At(0).Type().Underlying().(*types.Slice).Elem()
		var add []Value
		switch src := args[1].(type) {
		case Str:
			for _, t := range src.Terms() {
				add = append(add, t)
			}
		case Slice:
			for i := 0; i < src.len; i++ {
				add = append(add, copyVal(*src.At(i)))
			}
		default:
			panic(fmt.Sprintf("append of %T", src))
		}
		if m.lockset != nil && m.locksetOn && dst.a != nil && dst.len+len(add) <= dst.cap {
			// in-place append writes the shared backing array
			m.lockset.access(m, dst.a, true, callpos)
		}
		return m.appendSlice(dst, add, elemT)

	case "clear":
		switch x := args[0].(type) {
		case Slice:
			if x.len > 0 {
				elemT := fn.Type().(*types.Signature).Params().At(0).Type().Underlying().(*types.Slice).Elem()
				if m.lockset != nil && m.locksetOn && x.a != nil {
					m.lockset.access(m, x.a, true, callpos)
				}
				for i := 0; i < x.len; i++ {
					*x.At(i) = zero(elemT)
				}
			}
		case *Map:
			if x != nil {
				if m.lockset != nil && m.locksetOn {
					m.lockset.access(m, x, true, callpos)
				}
				x.keys, x.vals = nil, nil
				x.reindex()
			}
		default:
			unsupportedf("clear of %T", x)
		}
		return nil

	case "copy":
		dst := args[0].(Slice)
		n := 0
		switch src := args[1].(type) {
		case Str:
			ts := src.Terms()
			n = len(ts)
			if dst.len < n {
				n = dst.len
			}
			for i := 0; i < n; i++ {
				*dst.At(i) = ts[i]
			}
		case Slice:
			n = src.len
			if dst.len < n {
				n = dst.len
			}
			tmp := make([]Value, n)
			for i := 0; i < n; i++ {
				tmp[i] = copyVal(*src.At(i))
			}
			for i := 0; i < n; i++ {
				*dst.At(i) = tmp[i]
			}
		}
		return K(64, uint64(n))

	case "close":
		m.chanClose(caller, args[0].(*Chan), callpos)
		return nil

	case "delete":
		mp := args[0].(*Map)
		if mp != nil && m.lockset != nil && m.locksetOn {
			m.lockset.access(m, mp, true, callpos)
		}
		if mp != nil {
			m.mapDelete(mp, args[1])
		}
		return nil

	case "print", "println":
		return nil

	case "len":
		switch x := args[0].(type) {
		case Str:
			return K(64, uint64(x.Len()))
		case Array:
			return K(64, uint64(len(x)))
		case *Value:
			return K(64, uint64(len((*x).(Array))))
		case Slice:
			return K(64, uint64(x.len))
		case *Map:
			if x == nil {
				return K(64, 0)
			}
			return K(64, uint64(len(x.keys)))
		case *Chan:
			if x == nil {
				return K(64, 0)
			}
			return K(64, uint64(len(x.buf)))
		}
		unsupportedf("len of %T", args[0])

	case "cap":
		switch x := args[0].(type) {
		case Array:
			return K(64, uint64(len(x)))
		case *Value:
			return K(64, uint64(len((*x).(Array))))
		case Slice:
			return K(64, uint64(x.cap))
		case *Chan:
			if x == nil {
				return K(64, 0)
			}
			return K(64, uint64(x.cap))
		}
		unsupportedf("cap of %T", args[0])

	case "min", "max":
		t0 := args[0].(*Term)
		signed := signedOf(fn.Type().(*types.Signature).Params().At(0).Type())
		for _, a := range args[1:] {
			t1 := a.(*Term)
			a, b := t1, t0 // min: pick t1 if t1 < t0
			if fn.Name() == "max" {
				a, b = t0, t1 // max: pick t1 if t0 < t1
			}
			var lt *Term
			if signed {
				lt = Cmp(OpSlt, a, b)
			} else {
				lt = Cmp(OpUlt, a, b)
			}
			t0 = Ite(lt, t1, t0)
		}
		return t0

	case "panic":
		panic(targetPanic{v: args[0], pos: m.pos(callpos)})

	case "recover":
		return m.doRecover(caller)

	case "ssa:wrapnilchk":
		recv := args[0]
		if p, ok := recv.(*Value); ok && p == nil {
			m.runtimePanic(caller, callpos, "value method called using nil pointer")
		}
		return recv
	}
	unsupportedf("builtin %s", fn.Name())
	return nil
}

func (m *Machine) doRecover(caller *frame) Value {
	if caller != nil && !caller.panicking && caller.caller != nil && caller.caller.panicking {
		caller.caller.panicking = false
		p := caller.caller.panic
		caller.caller.panic = nil
		switch p := p.(type) {
		case targetPanic:
			return p.v
		default:
			panic(p)
		}
	}
	return Iface{}
}

// ---------------------------------------------------------------------------
// append with the growth policy of the Go 1.23 runtime (runtime.growslice)

var sizeClasses = []int64{0, 8, 16, 24, 32, 48, 64, 80, 96, 112, 128, 144, 160, 176, 192, 208, 224, 240, 256, 288, 320, 352, 384, 416, 448, 480, 512, 576, 640, 704, 768, 896, 1024, 1152, 1280, 1408, 1536, 1792, 2048, 2304, 2688, 3072, 3200, 3456, 4096, 4864, 5376, 6144, 6528, 6784, 6912, 8192, 9472, 9728, 10240, 10880, 12288, 13568, 14336, 16384, 18432, 19072, 20480, 21760, 24576, 27264, 28672, 32768}

func roundupsize(size int64, noscan bool) int64 {
	const mallocHeaderSize = 8
	const minSizeForMallocHeader = 512
	reqSize := size
	if reqSize <= 32768-mallocHeaderSize {
		if !noscan && reqSize > minSizeForMallocHeader {
			reqSize += mallocHeaderSize
		}
		for _, c := range sizeClasses {
			if c >= reqSize {
				return c - (reqSize - size)
			}
		}
	}
	// large: round up to page size
	const pageSize = 8192
	reqSize += pageSize - 1
	return reqSize &^ (pageSize - 1)
}

func nextslicecap(newLen, oldCap int) int {
	newcap := oldCap
	doublecap := newcap + newcap
	if newLen > doublecap {
		return newLen
	}
	const threshold = 256
	if oldCap < threshold {
		return doublecap
	}
	for {
		newcap += (newcap + 3*threshold) >> 2
		if uint(newcap) >= uint(newLen) {
			break
		}
	}
	if newcap <= 0 {
		return newLen
	}
	return newcap
}

func hasPointers(t types.Type) bool {
	switch t := t.Underlying().(type) {
	case *types.Basic:
		return t.Info()&types.IsString != 0 || t.Kind() == types.UnsafePointer
	case *types.Array:
		return t.Len() > 0 && hasPointers(t.Elem())
	case *types.Struct:
		for i := 0; i < t.NumFields(); i++ {
			if hasPointers(t.Field(i).Type()) {
				return true
			}
		}
		return false
	}
	return true
}

func (m *Machine) growCap(oldCap, newLen int, elem types.Type) int {
	newcap := nextslicecap(newLen, oldCap)
	es := m.P.sizes.Sizeof(elem)
	if es == 0 {
		return newcap
	}
	noscan := !hasPointers(elem)
	capmem := roundupsize(int64(newcap)*es, noscan)
	return int(capmem / es)
}

func (m *Machine) appendSlice(dst Slice, add []Value, elem types.Type) Slice {
	if len(add) == 0 {
		return dst
	}
	newLen := dst.len + len(add)
	if dst.a != nil && newLen <= dst.cap {
		for i, v := range add {
			dst.a.v[dst.off+dst.len+i] = v
		}
		dst.len = newLen
		return dst
	}
	nc := m.growCap(dst.cap, newLen, elem)
	b := &Backing{v: make([]Value, nc), esize: m.P.sizes.Sizeof(elem)}
	if m.lockset != nil && m.locksetOn {
		m.lockset.allocatedObj(m, b)
		defer func() {
			for i := range b.v {
				m.lockset.allocated(m, &b.v[i])
			}
		}()
	}
	for i := 0; i < dst.len; i++ {
		b.v[i] = *dst.At(i)
	}
	for i, v := range add {
		b.v[dst.len+i] = v
	}
	for i := newLen; i < nc; i++ {
		b.v[i] = zero(elem)
	}
	return Slice{a: b, off: 0, len: newLen, cap: nc}
}

// ---------------------------------------------------------------------------
// maps: association lists with forking key comparison

func (m *Machine) mapFind(mp *Map, key Value) int {
	if mp == nil {
		return -1
	}
	if mp.cint == nil {
		mp.reindex()
	}
	if ik, sk, kind := concreteKey(key); kind != 0 {
		// concrete key: concrete entries by index, then only the symbolic-keyed entries
		if kind == 1 {
			if i, ok := mp.cint[ik]; ok {
				return i
			}
		} else {
			if i, ok := mp.cstr[sk]; ok {
				return i
			}
		}
		if mp.nsym == 0 {
			return -1
		}
		for i, k := range mp.keys {
			if _, _, kk := concreteKey(k); kk != 0 {
				continue
			}
			if m.branch(valueEq(k, key)) {
				return i
			}
		}
		return -1
	}
	for i, k := range mp.keys {
		eq := valueEq(k, key)
		if m.branch(eq) {
			return i
		}
	}
	return -1
}

func (m *Machine) mapInsert(mp *Map, key, val Value) {
	i := m.mapFind(mp, key)
	if i >= 0 {
		mp.vals[i] = val
		return
	}
	mp.keys = append(mp.keys, copyVal(key))
	mp.vals = append(mp.vals, val)
	if mp.cint == nil {
		mp.reindex()
		return
	}
	ik, sk, kind := concreteKey(key)
	switch kind {
	case 1:
		mp.cint[ik] = len(mp.keys) - 1
	case 2:
		mp.cstr[sk] = len(mp.keys) - 1
	default:
		mp.nsym++
	}
}

func (m *Machine) mapDelete(mp *Map, key Value) {
	i := m.mapFind(mp, key)
	if i < 0 {
		return
	}
	mp.keys = append(append([]Value(nil), mp.keys[:i]...), mp.keys[i+1:]...)
	mp.vals = append(append([]Value(nil), mp.vals[:i]...), mp.vals[i+1:]...)
	mp.reindex()
}

func (m *Machine) lookup(fr *frame, instr *ssa.Lookup, x, key Value) Value {
	switch x := x.(type) {
	case *Map:
		vt := instr.X.Type().Underlying().(*types.Map).Elem()
		i := m.mapFind(x, key)
		var v Value
		if i >= 0 {
			v = copyVal(x.vals[i])
		} else {
			v = zero(vt)
		}
		if instr.CommaOk {
			return Tuple{v, KB(i >= 0)}
		}
		return v
	case Str:
		idx := m.toInt64(key.(*Term), instr.Index.Type())
		m.indexCheck(fr, instr.Pos(), idx, x.Len())
		if idx.IsConst() {
			return x.Byte(int(idx.val))
		}
		vals := make([]Value, x.Len())
		for i := range vals {
			vals[i] = x.Byte(i)
		}
		return m.iteSelect(idx, vals)
	}
	panic(fmt.Sprintf("lookup on %T", x))
}

type MapIter struct {
	keys []Value
	vals []Value
	mp   *Map
	i    int
}

type StrIter struct {
	s Str
	i int
}

func (m *Machine) rangeIter(fr *frame, x Value, t types.Type) Value {
	switch x := x.(type) {
	case *Map:
		it := &MapIter{mp: x}
		if x != nil {
			n := len(x.keys)
			order := make([]int, n)
			for i := range order {
				order[i] = i
			}
			switch {
			case m.mapOrder == 2 && n > 1:
				if m.decideN("maporder", 2, nil) == 1 {
					for i := range order {
						order[i] = n - 1 - i
					}
				}
			case m.mapOrder == 3 && n > 1 && n <= 4:
				perms := permutations(n)
				order = perms[m.decideN("maporder", len(perms), nil)]
			}
			for _, j := range order {
				it.keys = append(it.keys, x.keys[j])
				it.vals = append(it.vals, x.vals[j])
			}
		}
		return it
	case Str:
		return &StrIter{s: x}
	}
	panic(fmt.Sprintf("range over %T", x))
}

func permutations(n int) [][]int {
	var res [][]int
	var rec func(cur []int, used []bool)
	rec = func(cur []int, used []bool) {
		if len(cur) == n {
			res = append(res, append([]int(nil), cur...))
			return
		}
		for i := 0; i < n; i++ {
			if !used[i] {
				used[i] = true
				rec(append(cur, i), used)
				used[i] = false
			}
		}
	}
	rec(nil, make([]bool, n))
	return res
}

func (m *Machine) iterNext(fr *frame, it Value, instr *ssa.Next) Value {
	switch it := it.(type) {
	case *MapIter:
		for it.i < len(it.keys) {
			k := it.keys[it.i]
			it.i++
			// entry may have been deleted meanwhile: check by identity of key position
			still := false
			var val Value
			if _, _, kind := concreteKey(k); kind != 0 && it.mp.cint != nil {
				ik, sk, _ := concreteKey(k)
				j, ok := -1, false
				if kind == 1 {
					j, ok = it.mp.cint[ik]
				} else {
					j, ok = it.mp.cstr[sk]
				}
				if ok {
					still = true
					val = it.mp.vals[j]
				}
			} else {
				for j, kk := range it.mp.keys {
					if valueEq(kk, k) == trueT {
						still = true
						val = it.mp.vals[j]
						break
					}
				}
			}
			if !still {
				// key symbolic or deleted; use snapshot value
				val = it.vals[it.i-1]
			}
			return Tuple{trueT, k, copyVal(val)}
		}
		tt := instr.Type().(*types.Tuple)
		return Tuple{falseT, zeroOrNil(tt.At(1).Type()), zeroOrNil(tt.At(2).Type())}
	case *StrIter:
		if it.i >= it.s.Len() {
			return Tuple{falseT, K(64, 0), K(32, 0)}
		}
		if !it.s.IsConcrete() {
			// decode with the real utf8 code, symbolically (forks on the byte classes)
			sp := m.P.byPath["unicode/utf8"]
			if sp == nil || sp.Func("DecodeRuneInString") == nil {
				unsupportedf("range over symbolic string (utf8 not loaded)")
			}
			res := m.call(fr, token.NoPos, sp.Func("DecodeRuneInString"), []Value{it.s.Sub(it.i, it.s.Len())}).(Tuple)
			w := m.concreteInt(res[1], "rune width")
			idx := it.i
			it.i += w
			return Tuple{trueT, K(64, uint64(idx)), res[0]}
		}
		c := it.s.Concrete()
		r, w := utf8.DecodeRuneInString(c[it.i:])
		idx := it.i
		it.i += w
		return Tuple{trueT, K(64, uint64(idx)), K(32, uint64(r))}
	}
	panic(fmt.Sprintf("next on %T", it))
}

func zeroOrNil(t types.Type) Value {
	if b, ok := t.(*types.Basic); ok && b.Kind() == types.Invalid {
		return nil
	}
	return zero(t)
}
