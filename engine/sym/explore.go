package sym

import (
	"fmt"
	"sort"
	"sync"
	"time"

	"golang.org/x/tools/go/ssa"
)

// Limits bound an exploration.
type Limits struct {
	MaxPaths      int
	Deadline      time.Time
	MaxViolations int
	MaxWitnesses  int
}

// Report aggregates an exploration of one harness.
type Report struct {
	Harness         string
	Paths           int
	ByKind          map[string]int
	Violations      []*Violation
	Inconcl         map[string]int
	Reached         map[string]int
	Steps           int64
	Branches        int64
	Funcs           map[string]int
	Samples         []string
	Truncated       bool // work left when limits hit
	Pending         int
	WallS           float64
	Solver          SolverStats
	UnsupportedMsgs map[string]int
	UnwindMsgs      map[string]int
	Notes           map[string]int
	Witnesses       []*Violation
}

type SolverStats struct {
	Sat, Unsat, Unknown, Errors     int
	SolveS                          float64
	PortfolioRuns, PortfolioDecided int
}

// Complete reports whether every path within the harness bounds was explored and decided.
func (r *Report) Complete() bool {
	return !r.Truncated && len(r.Inconcl) == 0 && r.ByKind["UNSUPPORTED"] == 0 && r.ByKind["UNWIND"] == 0 && r.ByKind["INTERNAL"] == 0 && r.Solver.Errors == 0
}

type workQueue struct {
	mu      sync.Mutex
	cond    *sync.Cond
	items   [][]int32
	active  int
	stopped bool
}

func (q *workQueue) push(items [][]int32) {
	q.mu.Lock()
	q.items = append(q.items, items...)
	q.mu.Unlock()
	q.cond.Broadcast()
}

// pop returns the next item (LIFO: depth first keeps the queue small).
func (q *workQueue) pop() ([]int32, bool) {
	q.mu.Lock()
	defer q.mu.Unlock()
	for {
		if q.stopped {
			return nil, false
		}
		if n := len(q.items); n > 0 {
			it := q.items[n-1]
			q.items = q.items[:n-1]
			q.active++
			return it, true
		}
		if q.active == 0 {
			q.cond.Broadcast()
			return nil, false
		}
		q.cond.Wait()
	}
}

func (q *workQueue) done() {
	q.mu.Lock()
	q.active--
	q.mu.Unlock()
	q.cond.Broadcast()
}

func (q *workQueue) stop() {
	q.mu.Lock()
	q.stopped = true
	q.mu.Unlock()
	q.cond.Broadcast()
}

// Explore runs harness fn over all its paths with the given number of workers.
func Explore(p *Program, fn *ssa.Function, workers int, cfg Config, lim Limits) (*Report, error) {
	t0 := time.Now()
	rep := &Report{Harness: fn.Name(), ByKind: map[string]int{}, Inconcl: map[string]int{}, Reached: map[string]int{},
		Funcs: map[string]int{}, UnsupportedMsgs: map[string]int{}, UnwindMsgs: map[string]int{}, Notes: map[string]int{}}
	if lim.MaxViolations == 0 {
		lim.MaxViolations = 8
	}
	q := &workQueue{}
	q.cond = sync.NewCond(&q.mu)
	q.items = [][]int32{nil}
	var mu sync.Mutex
	var wg sync.WaitGroup
	var firstErr error
	for w := 0; w < workers; w++ {
		wg.Add(1)
		go func(w int) {
			defer wg.Done()
			m, err := NewMachine(p, cfg)
			if err != nil {
				mu.Lock()
				firstErr = err
				mu.Unlock()
				q.stop()
				return
			}
			defer m.Close()
			m.funcsSeen = map[*ssa.Function]int{}
			m.WantSample = func() bool {
				mu.Lock()
				defer mu.Unlock()
				n := rep.Paths + 1
				if len(rep.Witnesses) >= lim.MaxWitnesses {
					return false
				}
				// log-spaced sampling of passing paths
				for _, k := range []int{1, 3, 10, 30, 100, 300, 1000, 3000, 10000, 30000, 100000} {
					if n == k {
						return true
					}
				}
				return false
			}
			for {
				item, ok := q.pop()
				if !ok {
					break
				}
				res, work := m.RunPath(fn, item)
				q.push(work)
				mu.Lock()
				rep.Paths++
				rep.ByKind[res.Kind.String()]++
				rep.Steps += int64(res.Steps)
				rep.Branches += int64(res.Branches)
				for _, l := range res.Reached {
					rep.Reached[l]++
				}
				for _, l := range res.Inconcl {
					rep.Inconcl[l]++
				}
				for _, l := range res.Notes {
					rep.Notes[l]++
				}
				switch res.Kind {
				case EndUnsupported:
					rep.UnsupportedMsgs[res.Msg]++
				case EndUnwind, EndInternal, EndInfeasible:
					rep.UnwindMsgs[res.Kind.String()+": "+res.Msg]++
				}
				if res.Violation != nil {
					rep.Violations = append(rep.Violations, res.Violation)
				}
				if res.Witness != nil {
					rep.Witnesses = append(rep.Witnesses, res.Witness)
				}
				if res.Sample != "" && len(rep.Samples) < 6 && res.Kind == EndOK {
					rep.Samples = append(rep.Samples, res.Sample)
				}
				stop := false
				if lim.MaxPaths > 0 && rep.Paths >= lim.MaxPaths {
					stop = true
				}
				if !lim.Deadline.IsZero() && time.Now().After(lim.Deadline) {
					stop = true
				}
				if len(rep.Violations) >= lim.MaxViolations {
					stop = true
				}
				mu.Unlock()
				q.done()
				if stop {
					q.stop()
				}
			}
			mu.Lock()
			for f, n := range m.funcsSeen {
				rep.Funcs[f.String()] += n
			}
			rep.Solver.Sat += m.sol.NSat
			rep.Solver.Unsat += m.sol.NUnsat
			rep.Solver.Unknown += m.sol.NUnknown
			rep.Solver.Errors += m.sol.NErrors
			rep.Solver.SolveS += m.sol.SolveTime.Seconds()
			rep.Solver.PortfolioRuns += m.sol.PortfolioRuns
			rep.Solver.PortfolioDecided += m.sol.PortfolioDecided
			mu.Unlock()
		}(w)
	}
	wg.Wait()
	if firstErr != nil {
		return nil, firstErr
	}
	q.mu.Lock()
	rep.Pending = len(q.items)
	q.mu.Unlock()
	rep.Truncated = rep.Pending > 0
	rep.WallS = time.Since(t0).Seconds()
	sort.Slice(rep.Violations, func(i, j int) bool {
		return len(rep.Violations[i].Nondet) < len(rep.Violations[j].Nondet)
	})
	return rep, nil
}

func (r *Report) Summary() string {
	return fmt.Sprintf("%s: paths=%d kinds=%v violations=%d inconcl=%d pending=%d steps=%d branches=%d solver{sat=%d unsat=%d unk=%d err=%d %.1fs} wall=%.1fs",
		r.Harness, r.Paths, r.ByKind, len(r.Violations), len(r.Inconcl), r.Pending, r.Steps, r.Branches,
		r.Solver.Sat, r.Solver.Unsat, r.Solver.Unknown, r.Solver.Errors, r.Solver.SolveS, r.WallS)
}
