#!/bin/bash
# Regression of the checks against the seeded changes in /verif/seeded/*:
# for each seed, apply its patch to /repo, run the quick check(s) that should catch it,
# expect exit 1 with a VIOLATION line, then undo the patch. Exits non-zero if a seed is
# missed or if /repo is not clean to begin with. (Not a registered check; a maintainer's aid.)
cd "$(dirname "$0")"
R=${VERIF_REPO:-/repo}
if [ -n "$(git -C $R status --porcelain)" ]; then echo "$R has local changes; refusing"; exit 2; fi
fail=0
for d in seeded/*/; do
  name=$(basename $d)
  # SEEDS=<extended regex> restricts the run to the seeds whose name matches
  if [ -n "${SEEDS:-}" ] && ! echo "$name" | grep -Eq "$SEEDS"; then continue; fi
  prop=$(python3 -c "import json;m=json.load(open('$d/meta.json'));print(m.get('check_property',m['property']))")
  [ "$name" = "C12" ] && prop="C12"
  git -C $R apply "$PWD/${d}patch.diff" || { echo "MISS $name: patch does not apply"; fail=1; continue; }
  out=$(timeout 1800 ./check.sh $prop quick 2>&1); rc=$?
  git -C $R checkout -- .
  git checkout -- evidence/$prop.json 2>/dev/null; rm -rf replays/$prop
  if [ $rc -eq 1 ] && echo "$out" | grep -q "^VIOLATION property=$prop"; then
    echo "CAUGHT $name by $prop: $(echo "$out" | grep -A1 '^VIOLATION' | sed -n 2p | cut -c1-160)"
  else
    echo "MISS $name (check $prop exit=$rc)"; fail=1
  fi
done
exit $fail
