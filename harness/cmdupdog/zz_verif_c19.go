package main

import (
	"unicode"

	"github.com/akrennmair/updog"
)

// C19 — `updog create` ingests a CSV faithfully in both modes.

func init() {
	verifHarnesses["HarnessC19Headers"] = HarnessC19Headers
	verifHarnesses["HarnessC19Create"] = HarnessC19Create
	verifHarnesses["HarnessC19Errors"] = HarnessC19Errors
	verifHarnesses["HarnessC19Boundary"] = HarnessC19Boundary
	verifHarnesses["HarnessC19Prefix"] = HarnessC19Prefix
}

// c19Norm is the documented header normalisation: lower-cased, every character outside a-z
// replaced by '_' (byte-wise reference for ASCII headers).
func c19Norm(h string) string {
	out := make([]byte, len(h))
	for i := 0; i < len(h); i++ {
		c := h[i]
		if c >= 'A' && c <= 'Z' {
			c += 'a' - 'A'
		}
		if c < 'a' || c > 'z' {
			c = '_'
		}
		out[i] = c
	}
	return string(out)
}

func c19Field(name string, maxLen int) string {
	n := verifChoice(name+"len", maxLen+1)
	b := verifBytes(name, n)
	for _, c := range b {
		verifAssume(c != '\r') // encoding/csv drops carriage returns before newlines (library behaviour)
	}
	return string(b)
}

var c19LongHeaderUsed bool

func c19Header(name string) string {
	n := 1
	if verifTier() > 0 && !c19LongHeaderUsed {
		// thorough: the first header may have two bytes
		n = 1 + verifChoice(name+"len", 2)
		c19LongHeaderUsed = true
	}
	b := verifBytes(name, n)
	for _, c := range b {
		verifAssume(verifAnd(c < 0x80, c != '\r')) // ASCII headers (multi-byte headers are outside the bound)
	}
	return string(b)
}

func c19Count(idx *updog.Index, e updog.Expression) (uint64, bool) {
	res, err := idx.Execute(&updog.Query{Expr: e})
	if err != nil {
		return 0, false
	}
	return res.Count, true
}

// c19Compare checks that two indexes are observationally equal on the probes derived from
// the expected rows.
func c19Compare(tag string, got, want *updog.Index, names []string, recs [][]string) {
	gs, ws := got.GetSchema(), want.GetSchema()
	same := len(gs.Columns) == len(ws.Columns)
	if same {
		for i := range ws.Columns {
			if !verifStrEq(gs.Columns[i].Name, ws.Columns[i].Name) || len(gs.Columns[i].Values) != len(ws.Columns[i].Values) {
				same = false
				break
			}
			for j := range ws.Columns[i].Values {
				if !verifStrEq(gs.Columns[i].Values[j].Value, ws.Columns[i].Values[j].Value) {
					same = false
				}
			}
		}
	}
	verifAssert(same, tag+": schema differs from the CSV's columns and values (names normalised)")
	for _, r := range recs {
		var all []updog.Expression
		for j, f := range r {
			e := &updog.ExprEqual{Column: names[j], Value: f}
			all = append(all, e)
			g, ok1 := c19Count(got, e)
			w, ok2 := c19Count(want, e)
			verifAssert(ok1 == ok2 && g == w, tag+": a field value is not held by exactly the records that carry it")
		}
		if len(all) > 0 {
			g, ok1 := c19Count(got, &updog.ExprAnd{Exprs: all})
			w, ok2 := c19Count(want, &updog.ExprAnd{Exprs: all})
			verifAssert(ok1 == ok2 && g == w, tag+": the values of one record are not on one row")
		}
	}
	if len(recs) > 0 && len(names) > 0 {
		e := &updog.ExprNot{Expr: &updog.ExprEqual{Column: names[0], Value: "\x00never"}}
		g, ok1 := c19Count(got, e)
		w, ok2 := c19Count(want, e)
		verifAssert(ok1 == ok2 && g == w, tag+": the number of rows differs from the number of records")
	}
}

func HarnessC19Create() {
	ncols := 1 + verifChoice("ncols", 2)
	nrecs := verifChoice("nrecs", 2+verifTier())
	// thorough: two records (with two columns the second record is a fixed one), and a two-byte
	// first header for one column and up to one record (two records of two symbolic fields each,
	// or the longer header with more fields, did not finish within 25 minutes)
	concreteSecond := nrecs == 2 && ncols == 2 // then the second record is a fixed one
	c19LongHeaderUsed = !(ncols == 1 && nrecs <= 1)
	maxField := 1
	var header, names []string
	for j := 0; j < ncols; j++ {
		h := c19Header("h")
		header = append(header, h)
		names = append(names, c19Norm(h))
	}
	if ncols == 2 {
		verifAssume(!verifStrEq(names[0], names[1])) // headers stay distinct after normalisation
	}
	var recs [][]string
	for i := 0; i < nrecs; i++ {
		var r []string
		for j := 0; j < ncols; j++ {
			if concreteSecond && i == 1 {
				r = append(r, []string{"", "q"}[j])
				continue
			}
			r = append(r, c19Field("f", maxField))
		}
		recs = append(recs, r)
	}
	in := verifTempPath("c19.csv")
	verifCSV(in, append([][]string{header}, recs...), -1)

	// reference index: the expected rows through the library writer
	refPath := verifTempPath("c19_ref.updog")
	rw := updog.NewIndexWriter(refPath)
	for _, r := range recs {
		m := map[string]string{}
		for j, f := range r {
			m[names[j]] = f
		}
		if _, err := rw.AddRow(m); err != nil {
			panic(err)
		}
	}
	if err := rw.Flush(); err != nil {
		panic(err)
	}
	want, err := updog.OpenIndex(refPath)
	if err != nil {
		panic(err)
	}
	for mode := 0; mode < 2; mode++ {
		out := verifTempPath([]string{"c19_normal.updog", "c19_big.updog"}[mode])
		tag := []string{"C19 normal mode", "C19 --big mode"}[mode]
		err := createCmd(&globalConfig{}, &createConfig{outputFile: out, inputFile: in, big: mode == 1})
		verifAssert(err == nil, tag+": a well-formed CSV was rejected")
		if err != nil {
			return
		}
		created := verifFileVersion(out)
		got, err := updog.OpenIndex(out)
		verifAssert(err == nil, tag+": the created index cannot be opened")
		if err != nil {
			return
		}
		c19Compare(tag, got, want, names, recs)
		got.Close()
		// C16: the first open/query/close of a freshly created index leaves its bytes alone
		verifAssert(verifFileVersion(out) == created, tag+": opening and querying the created index modified the file")
	}
	want.Close()
	verifReach("end")
}

// HarnessC19Errors: malformed input (parse error or ragged record at any position) and
// pre-existing output make the command return an error — without hanging — and leave an
// existing output untouched.
func HarnessC19Errors() {
	big := verifBool("big")
	in := verifTempPath("c19e.csv")
	out := verifTempPath("c19e.updog")
	header := []string{"a", "b"}
	recs := [][]string{{"1", "2"}, {"3", "4"}}
	kind := verifChoice("fault", 3)
	wantErr := true
	switch kind {
	case 0: // parse error before record k (k = 0: the header itself)
		verifCSV(in, append([][]string{header}, recs...), verifChoice("at", 4))
	case 1: // ragged record
		k := verifChoice("ragged", 2)
		if verifBool("short") {
			recs[k] = recs[k][:1]
		} else {
			recs[k] = append(recs[k], "x")
		}
		verifCSV(in, append([][]string{header}, recs...), -1)
	case 2: // output exists already
		verifCSV(in, append([][]string{header}, recs...), -1)
		verifMakeFile(out, 1+verifChoice("existing", 5)) // empty, arbitrary bytes, bbolt file, dangling symbolic link, directory
	}
	if kind != 2 && verifBool("output-exists") {
		// a malformed input AND an existing output: the output must still be left alone
		verifMakeFile(out, 1+verifChoice("existing", 5)) // empty, arbitrary bytes, bbolt file, dangling symbolic link, directory
	}
	before := verifFileVersion(out)
	existed := verifFileKind(out) != 0
	err := createCmd(&globalConfig{}, &createConfig{outputFile: out, inputFile: in, big: big})
	verifAssert(!wantErr || err != nil, "C19: a malformed CSV or an existing output must make the command fail")
	if existed {
		verifAssert(verifFileVersion(out) == before, "C19: an existing output file was touched")
	}
	verifReach("end")
}

// c19NormRunes is the documented normalisation character by character (for concrete,
// possibly non-ASCII headers): lower-case, then everything outside a-z becomes '_'.
func c19NormRunes(h string) string {
	out := []rune{}
	for _, r := range h {
		r = unicode.ToLower(r)
		if r < 'a' || r > 'z' {
			r = '_'
		}
		out = append(out, r)
	}
	return string(out)
}

// HarnessC19Headers: concrete headers with multi-byte characters, characters whose lower
// case is ASCII (Kelvin sign), invalid UTF-8, digits, blanks and punctuation; one record.
func HarnessC19Headers() {
	samples := []string{"Città", "Größe", "Prénom", "Temp \u212a", "naïve café", "日本語", "a\xffb", "ID#1", " x ", "İd", "UPPER_lower-9", "ß", "é"}
	h := samples[verifChoice("header", len(samples))]
	in := verifTempPath("c19h.csv")
	verifCSV(in, [][]string{{h, "plain"}, {"v1", "v2"}}, -1)
	want := c19NormRunes(h)
	for mode := 0; mode < 2; mode++ {
		out := verifTempPath([]string{"c19h_normal.updog", "c19h_big.updog"}[mode])
		if err := createCmd(&globalConfig{}, &createConfig{outputFile: out, inputFile: in, big: mode == 1}); err != nil {
			verifAssert(false, "C19: a well-formed CSV was rejected")
			return
		}
		idx, err := updog.OpenIndex(out)
		if err != nil {
			verifAssert(false, "C19: the created index cannot be opened")
			return
		}
		found := false
		for _, c := range idx.GetSchema().Columns {
			if c.Name == want {
				found = true
			}
		}
		verifAssert(found, "C19: a column is not named by its header lower-cased with every character outside a-z replaced by '_'")
		n, ok := c19Count(idx, &updog.ExprEqual{Column: want, Value: "v1"})
		verifAssert(ok && n == 1, "C19: the field under a normalised header is not queryable")
		idx.Close()
	}
	verifReach("end")
}

// HarnessC19Boundary: record counts around the --big writer's 1000-row batches (concrete
// records, two columns): both modes must produce the index of the reference writer.
func HarnessC19Boundary() {
	k := 1
	if verifTier() > 0 {
		k += verifChoice("thousands", 2)
	}
	n := 1000*k - 1 + verifChoice("around-batch", 4) // 999..1002 (thorough: also 1999..2002)
	names := []string{"t", "a"}
	recs := make([][]string, n)
	for i := range recs {
		recs[i] = []string{string([]byte{'r', byte('0' + i/1000), byte('0' + i/100%10), byte('0' + i/10%10), byte('0' + i%10)}), []string{"x", "y", ""}[i%3]}
	}
	in := verifTempPath("c19b.csv")
	verifCSV(in, append([][]string{{"T", "a"}}, recs...), -1)
	refPath := verifTempPath("c19b_ref.updog")
	rw := updog.NewIndexWriter(refPath)
	for _, r := range recs {
		if _, err := rw.AddRow(map[string]string{"t": r[0], "a": r[1]}); err != nil {
			panic(err)
		}
	}
	if err := rw.Flush(); err != nil {
		panic(err)
	}
	want, err := updog.OpenIndex(refPath)
	if err != nil {
		panic(err)
	}
	// schema and row count are compared in full, per-record membership for the records around
	// the batch boundaries and the ends
	var probe [][]string
	for _, i := range []int{0, 1, 998, 999, 1000, 1001, n - 2, n - 1} {
		if i >= 0 && i < n {
			probe = append(probe, recs[i])
		}
	}
	// left-overs of an earlier, interrupted run may lie next to the output (same name plus
	// ".tmp"): whatever they hold, they are not the command's to read
	stale := verifBool("stale-tmp-sibling")
	verbose := verifBool("verbose") // the global flags only add output, never change the index
	for mode := 0; mode < 2; mode++ {
		out := verifTempPath([]string{"c19b_normal.updog", "c19b_big.updog"}[mode])
		if stale {
			verifMakeFile(out+".tmp", 2)
		}
		tag := []string{"C19 normal mode", "C19 --big mode"}[mode] + " around the 1000-record batch"
		err := createCmd(&globalConfig{verbose: verbose}, &createConfig{outputFile: out, inputFile: in, big: mode == 1})
		verifAssert(err == nil, tag+": a well-formed CSV was rejected")
		if err != nil {
			return
		}
		got, err := updog.OpenIndex(out)
		verifAssert(err == nil, tag+": the created index cannot be opened")
		if err != nil {
			return
		}
		c19Compare(tag, got, want, names, probe)
		got.Close()
	}
	want.Close()
	verifReach("end")
}

// HarnessC19Prefix: one header is a prefix of the other and the values are chosen so that
// column name and value concatenate alike across the two columns; the expected counts come
// from the records themselves (not from a second index built by the same library).
func HarnessC19Prefix() {
	in := verifTempPath("c19p.csv")
	recs := [][]string{{"s1", ""}, {"", "1"}, {"s1", "1"}, {"x", "s1"}}
	verifCSV(in, append([][]string{{"Part", "Parts"}}, recs...), -1)
	names := []string{"part", "parts"}
	for mode := 0; mode < 2; mode++ {
		out := verifTempPath([]string{"c19p_normal.updog", "c19p_big.updog"}[mode])
		tag := []string{"C19 normal mode", "C19 --big mode"}[mode]
		err := createCmd(&globalConfig{}, &createConfig{outputFile: out, inputFile: in, big: mode == 1})
		verifAssert(err == nil, tag+": a well-formed CSV was rejected")
		if err != nil {
			return
		}
		idx, err := updog.OpenIndex(out)
		verifAssert(err == nil, tag+": the created index cannot be opened")
		if err != nil {
			return
		}
		for j, name := range names {
			for _, v := range []string{"s1", "1", "", "x"} {
				want := uint64(0)
				for _, r := range recs {
					if r[j] == v {
						want++
					}
				}
				got, ok := c19Count(idx, &updog.ExprEqual{Column: name, Value: v})
				verifAssert(ok && got == want, tag+": a field value is not held by exactly the records that carry it (headers one a prefix of the other)")
			}
		}
		idx.Close()
	}
	verifReach("end")
}
