package queryparser

import (
	proto "github.com/akrennmair/updog/proto/updog/v1"
)

// C10 — formatting a query and parsing it back preserves its meaning.

func init() {
	verifHarnesses["HarnessC10RoundTrip"] = HarnessC10RoundTrip
}

type c10Gen struct {
	firstCol, firstVal, firstPh bool
	maxVal                      int
	nleaf                       int
	unary                       int  // single-operand AND/OR wrappers still available
	simple                      bool // shape sweep: the first leaf is a 1-byte column with a 1-byte symbolic value
}

func pbEq(col, val string, ph int32) *proto.Query_Expression {
	return &proto.Query_Expression{Value: &proto.Query_Expression_Eq{Eq: &proto.Query_Expression_Equal{Column: col, Value: val, Placeholder: ph}}}
}
func pbNot(e *proto.Query_Expression) *proto.Query_Expression {
	return &proto.Query_Expression{Value: &proto.Query_Expression_Not_{Not: &proto.Query_Expression_Not{Expr: e}}}
}
func pbAnd(es ...*proto.Query_Expression) *proto.Query_Expression {
	return &proto.Query_Expression{Value: &proto.Query_Expression_And_{And: &proto.Query_Expression_And{Exprs: es}}}
}
func pbOr(es ...*proto.Query_Expression) *proto.Query_Expression {
	return &proto.Query_Expression{Value: &proto.Query_Expression_Or_{Or: &proto.Query_Expression_Or{Exprs: es}}}
}

func (g *c10Gen) ident() string {
	if !g.firstCol {
		return "b"
	}
	g.firstCol = false
	n := 1 + verifChoice("collen", 2)
	b := verifBytes("col", n)
	verifAssume(skAlpha(b[0]))
	if n == 2 {
		verifAssume(verifOr(skAlpha(b[1]), verifOr(skDigit(b[1]), b[1] == '_')))
	}
	return string(b)
}

func (g *c10Gen) leaf() *proto.Query_Expression {
	if g.simple {
		g.nleaf++
		if g.nleaf == 1 {
			return pbEq("a", verifString("val", 1), 0)
		}
		if g.nleaf%2 == 0 {
			return pbEq("b", "", 2)
		}
		return pbEq("c", "w\r\nx \"\" y\t", 0) // CR LF, doubled quote, blanks and a tab inside a value
	}
	col := g.ident()
	g.nleaf++
	if g.nleaf > 1 {
		// only the first leaf has symbolic contents; the others alternate literal / placeholder
		if g.nleaf%2 == 0 {
			return pbEq(col, "", 2)
		}
		return pbEq(col, "w\r\nx \"\" y\t", 0)
	}
	if verifBool("placeholder") {
		if g.firstPh {
			g.firstPh = false
			// symbolic placeholders 1..99 (quick) / 1..9999 (thorough), plus concrete boundary values
			// (the %d / Atoi round trip does not bit-blast beyond ~6 digits, DESIGN §3)
			boundary := []int32{2147483647, 2147483646, 1000000000, 999999999, 100000, 65536}
			k := verifChoice("phkind", 1+len(boundary))
			if k > 0 {
				return pbEq(col, "", boundary[k-1])
			}
			ph := verifI32("ph")
			lim := int32(99)
			if verifTier() > 0 {
				lim = 9999
			}
			verifAssume(verifAnd(ph >= 1, ph <= lim))
			return pbEq(col, "", ph)
		}
		return pbEq(col, "", 2)
	}
	if g.firstVal {
		g.firstVal = false
		return pbEq(col, verifString("val", verifChoice("vallen", g.maxVal+1)), 0)
	}
	return pbEq(col, "w", 0)
}

// tree unfolds every shape of the given depth; NOT and binary AND/OR consume depth,
// single-operand AND/OR wrappers (which only code can build, never the parser) do not:
// up to g.unary of them may be inserted anywhere.
func (g *c10Gen) tree(depth int) *proto.Query_Expression {
	kinds := 1
	if depth > 0 {
		kinds = 4
	}
	if g.unary > 0 {
		kinds += 2
	}
	kind := verifChoice("kind", kinds)
	if depth == 0 && kind >= 1 {
		kind += 3 // without depth left only leaf and the unary wrappers are available
	}
	switch kind {
	case 0:
		return g.leaf()
	case 1:
		return pbNot(g.tree(depth - 1))
	case 2, 3:
		kids := []*proto.Query_Expression{g.tree(depth - 1), g.tree(depth - 1)}
		if kind == 2 {
			return pbAnd(kids...)
		}
		return pbOr(kids...)
	case 4:
		g.unary--
		return pbAnd(g.tree(depth))
	default:
		g.unary--
		return pbOr(g.tree(depth))
	}
}

// c10Norm flattens directly nested nodes of the same operator and unwraps single-operand
// AND/OR (the notion of "same meaning" in the property's statement).
func c10Norm(e *proto.Query_Expression) *proto.Query_Expression {
	switch v := e.Value.(type) {
	case *proto.Query_Expression_Not_:
		return pbNot(c10Norm(v.Not.Expr))
	case *proto.Query_Expression_And_:
		var kids []*proto.Query_Expression
		for _, k := range v.And.Exprs {
			nk := c10Norm(k)
			if a, ok := nk.Value.(*proto.Query_Expression_And_); ok {
				kids = append(kids, a.And.Exprs...)
			} else {
				kids = append(kids, nk)
			}
		}
		if len(kids) == 1 {
			return kids[0]
		}
		return pbAnd(kids...)
	case *proto.Query_Expression_Or_:
		var kids []*proto.Query_Expression
		for _, k := range v.Or.Exprs {
			nk := c10Norm(k)
			if a, ok := nk.Value.(*proto.Query_Expression_Or_); ok {
				kids = append(kids, a.Or.Exprs...)
			} else {
				kids = append(kids, nk)
			}
		}
		if len(kids) == 1 {
			return kids[0]
		}
		return pbOr(kids...)
	}
	return e
}

// c10Same compares two normalised trees; leaf contents are compared as one condition.
func c10Same(a, b *proto.Query_Expression) bool {
	switch av := a.Value.(type) {
	case *proto.Query_Expression_Eq:
		bv, ok := b.Value.(*proto.Query_Expression_Eq)
		if !ok {
			return false
		}
		return verifAnd(verifStrEq(av.Eq.Column, bv.Eq.Column), verifAnd(verifStrEq(av.Eq.Value, bv.Eq.Value), av.Eq.Placeholder == bv.Eq.Placeholder))
	case *proto.Query_Expression_Not_:
		bv, ok := b.Value.(*proto.Query_Expression_Not_)
		return ok && c10Same(av.Not.Expr, bv.Not.Expr)
	case *proto.Query_Expression_And_:
		bv, ok := b.Value.(*proto.Query_Expression_And_)
		if !ok || len(av.And.Exprs) != len(bv.And.Exprs) {
			return false
		}
		r := true
		for i := range av.And.Exprs {
			r = verifAnd(r, c10Same(av.And.Exprs[i], bv.And.Exprs[i]))
		}
		return r
	case *proto.Query_Expression_Or_:
		bv, ok := b.Value.(*proto.Query_Expression_Or_)
		if !ok || len(av.Or.Exprs) != len(bv.Or.Exprs) {
			return false
		}
		r := true
		for i := range av.Or.Exprs {
			r = verifAnd(r, c10Same(av.Or.Exprs[i], bv.Or.Exprs[i]))
		}
		return r
	}
	return false
}

func HarnessC10RoundTrip() {
	// two sweeps: (0) every shape with simple leaf contents, (1) every leaf content variant
	// on the small shapes — shape and content defects are largely independent
	depth, maxVal := 2, 1
	if verifTier() > 0 {
		maxVal = 2
	}
	g := &c10Gen{firstCol: true, firstVal: true, firstPh: true, maxVal: maxVal, unary: 1 + verifTier()}
	mode := verifChoice("sweep", 2)
	if mode == 0 {
		g.simple = true
	} else {
		depth, g.unary = 1, verifTier()
	}
	t := g.tree(depth)
	var gb []string
	gbChoices := 5
	if mode == 0 {
		gbChoices = 2
	}
	switch verifChoice("groupby", gbChoices) {
	case 1:
		gb = []string{"g"}
	case 2:
		gb = []string{"g", "h_1"}
	case 3:
		gb = []string{"g", "g"} // a column may be listed more than once
	case 4:
		gb = []string{"g", "h_1", "g"}
	}
	q := &proto.Query{Expr: t, GroupBy: gb}
	s := QueryToString(q)
	p, err := ParseQuery(s)
	verifAssert(err == nil, "C10: the formatter's output is rejected by the parser")
	if err != nil {
		return
	}
	verifAssert(c10Same(c10Norm(p.Expr), c10Norm(t)), "C10: the re-parsed tree does not have the meaning of the original")
	same := len(p.GroupBy) == len(gb)
	if same {
		for i := range gb {
			same = same && p.GroupBy[i] == gb[i]
		}
	}
	verifAssert(same, "C10: the group-by list changed in the round trip")
	s1 := QueryToString(p)
	p2, err := ParseQuery(s1)
	verifAssert(err == nil, "C10: the text of the re-parsed tree is rejected by the parser")
	if err != nil {
		return
	}
	verifAssert(verifStrEq(QueryToString(p2), s1), "C10: formatting the re-parsed tree is not stable")
	verifReach("end")
}
