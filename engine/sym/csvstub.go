package sym

import (
	"go/token"
	"go/types"
)

// encoding/csv stub: a ghost file's CSV content is a list of records registered by the
// harness (verifCSV) plus an optional position at which reading fails. Read obeys csv's
// contract: records in order, io.EOF at the end, a record whose field count differs from
// the first one is returned together with ErrFieldCount.

type csvFile struct {
	records [][]Str
	errAt   int // index of the record before which a parse error is reported; -1 = none
}

type csvReader struct {
	path   string
	pos    int
	fields int
}

func (p *Program) installCSV() {
	in := p.intrinsics
	v := p.verifIntrinsics
	v["verifCSV"] = func(fr *frame, a []Value) Value {
		m := fr.m
		path := a[0].(Str).Concrete()
		recs := a[1].(Slice)
		cf := &csvFile{errAt: m.concreteInt(a[2], "csv error position")}
		for i := 0; i < recs.len; i++ {
			rec := (*recs.At(i)).(Slice)
			var r []Str
			for j := 0; j < rec.len; j++ {
				r = append(r, (*rec.At(j)).(Str))
			}
			cf.records = append(cf.records, r)
		}
		if m.csvFiles == nil {
			m.csvFiles = map[string]*csvFile{}
		}
		m.csvFiles[path] = cf
		g := m.ghost(path)
		g.kind = 2
		g.gen++
		return nil
	}
	in["encoding/csv.NewReader"] = func(fr *frame, a []Value) Value {
		m := fr.m
		it := a[0].(Iface)
		fp, ok := it.v.(*Value)
		if !ok || fp == nil {
			unsupportedf("csv.NewReader on %v", it.t)
		}
		path, ok := m.openFiles[fp]
		if !ok {
			unsupportedf("csv.NewReader on a reader that is not a ghost file")
		}
		// a real csv.Reader value, so that the code under analysis can set its options; the
		// stub's own state lives in a side table
		rt := m.P.namedType("encoding/csv", "Reader")
		cell := zero(rt)
		if st, ok := cell.(Struct); ok {
			if i := csvFieldIndex(rt, "Comma"); i >= 0 {
				st[i] = K(32, ',')
			}
		}
		p := &cell
		if m.csvReaders == nil {
			m.csvReaders = map[*Value]*csvReader{}
		}
		m.csvReaders[p] = &csvReader{path: path, fields: -1}
		return p
	}
	in["(*encoding/csv.Reader).Read"] = func(fr *frame, a []Value) Value {
		m := fr.m
		p := a[0].(*Value)
		if p == nil {
			m.runtimePanic(fr, token.NoPos, "invalid memory address or nil pointer dereference")
		}
		r := m.csvReaders[p]
		if r == nil {
			unsupportedf("csv.Reader not created by csv.NewReader on a ghost file")
		}
		// options: the stub hands out field values, so it can honour those options that act on
		// field values; the others would change how the text is split, which the stub cannot see
		rt := m.P.namedType("encoding/csv", "Reader")
		st := (*p).(Struct)
		opt := func(name string) *Term {
			if i := csvFieldIndex(rt, name); i >= 0 {
				if t, ok := st[i].(*Term); ok {
					return t
				}
			}
			return nil
		}
		if c := opt("Comma"); c == nil || !c.IsConst() || c.val != ',' {
			unsupportedf("csv.Reader with a Comma other than ','")
		}
		for _, name := range []string{"Comment", "FieldsPerRecord"} {
			if c := opt(name); c != nil && (!c.IsConst() || c.val != 0) {
				unsupportedf("csv.Reader option " + name)
			}
		}
		for _, name := range []string{"LazyQuotes", "ReuseRecord", "TrailingComma"} {
			if c := opt(name); c != nil && (!c.IsConst() || c.val != 0) {
				unsupportedf("csv.Reader option " + name)
			}
		}
		trim := false
		if c := opt("TrimLeadingSpace"); c != nil {
			if !c.IsConst() {
				unsupportedf("symbolic csv.Reader option")
			}
			trim = c.val != 0
		}
		cf := m.csvFiles[r.path]
		if cf == nil {
			// an existing file without registered CSV content: empty
			return Tuple{Slice{}, m.ioEOF()}
		}
		if cf.errAt >= 0 && r.pos == cf.errAt {
			r.pos++
			return Tuple{Slice{}, m.mkError("parse error on line " + itoa(r.pos) + ": bare \" in non-quoted-field (csv stub)")}
		}
		idx := r.pos
		if cf.errAt >= 0 && r.pos > cf.errAt {
			idx = r.pos - 1
		}
		if idx >= len(cf.records) {
			return Tuple{Slice{}, m.ioEOF()}
		}
		r.pos++
		rec := cf.records[idx]
		b := &Backing{v: make([]Value, len(rec)), esize: 16}
		for i, f := range rec {
			if trim {
				// TrimLeadingSpace: leading white space of a field is dropped (the native side
				// writes such fields unquoted; inside quotes the blanks would survive)
				f = m.csvTrimLeading(f)
			}
			b.v[i] = f
		}
		out := Slice{a: b, len: len(rec), cap: len(rec)}
		if r.fields < 0 {
			r.fields = len(rec)
		} else if len(rec) != r.fields {
			return Tuple{out, m.mkError("record on line " + itoa(r.pos) + ": wrong number of fields")}
		}
		return Tuple{out, Iface{}}
	}
}

func itoa(n int) string {
	if n == 0 {
		return "0"
	}
	s := ""
	for n > 0 {
		s = string(rune('0'+n%10)) + s
		n /= 10
	}
	return s
}

// csvTrimLeading drops leading blanks and tabs (and the other one-byte white space
// characters) of a field whose bytes may be symbolic; a symbolic byte forks.
func (m *Machine) csvTrimLeading(f Str) Str {
	ts := f.Terms()
	i := 0
	for i < len(ts) {
		t := ts[i]
		isSp := BOr(BOr(Cmp(OpEq, t, K(8, ' ')), Cmp(OpEq, t, K(8, '\t'))), BOr(Cmp(OpEq, t, K(8, '\v')), Cmp(OpEq, t, K(8, '\f'))))
		if t.IsConst() {
			if !(t.val == ' ' || t.val == '\t' || t.val == '\v' || t.val == '\f') {
				break
			}
		} else if !m.branch(isSp) {
			break
		}
		i++
	}
	return StrFromTerms(ts[i:])
}

func csvFieldIndex(t types.Type, name string) int {
	st, ok := t.Underlying().(*types.Struct)
	if !ok {
		return -1
	}
	for i := 0; i < st.NumFields(); i++ {
		if st.Field(i).Name() == name {
			return i
		}
	}
	return -1
}
