package main

import (
	"context"
	"sync"

	"github.com/akrennmair/updog"
	"github.com/akrennmair/updog/internal/convert"
	proto "github.com/akrennmair/updog/proto/updog/v1"
)

// C13 — the gRPC service answers each query of a batch like the library, in order.
// C14 — no request can crash the server.

func init() {
	verifHarnesses["HarnessC13Batch"] = HarnessC13Batch
	verifHarnesses["HarnessC13Convert"] = HarnessC13Convert
	verifHarnesses["HarnessC13Invalid"] = HarnessC13Invalid
	verifHarnesses["HarnessC13Concurrent"] = HarnessC13Concurrent
	verifHarnesses["HarnessC14Deep"] = HarnessC14Deep
	verifHarnesses["HarnessC14Malformed"] = HarnessC14Malformed
}

func srvBuild(path string) {
	w := updog.NewIndexWriter(path)
	rows := []map[string]string{{"a": "x", "b": "p"}, {"a": "y", "b": "q"}, {"a": "x"}, {"a": "y", "b": "p"}, {}}
	for _, r := range rows {
		if _, err := w.AddRow(r); err != nil {
			panic(err)
		}
	}
	if err := w.Flush(); err != nil {
		panic(err)
	}
}

func pEq(col, val string) *proto.Query_Expression {
	return &proto.Query_Expression{Value: &proto.Query_Expression_Eq{Eq: &proto.Query_Expression_Equal{Column: col, Value: val}}}
}
func pNot(e *proto.Query_Expression) *proto.Query_Expression {
	return &proto.Query_Expression{Value: &proto.Query_Expression_Not_{Not: &proto.Query_Expression_Not{Expr: e}}}
}
func pAnd(es ...*proto.Query_Expression) *proto.Query_Expression {
	return &proto.Query_Expression{Value: &proto.Query_Expression_And_{And: &proto.Query_Expression_And{Exprs: es}}}
}
func pOr(es ...*proto.Query_Expression) *proto.Query_Expression {
	return &proto.Query_Expression{Value: &proto.Query_Expression_Or_{Or: &proto.Query_Expression_Or{Exprs: es}}}
}

type srvQ struct {
	pb    *proto.Query
	lib   *updog.Query
	valid bool
}

func srvQueries() []srvQ {
	return []srvQ{
		{&proto.Query{Expr: pEq("a", "x")}, &updog.Query{Expr: &updog.ExprEqual{Column: "a", Value: "x"}}, true},
		{&proto.Query{Expr: pNot(pEq("a", "x")), GroupBy: []string{"b"}}, &updog.Query{Expr: &updog.ExprNot{Expr: &updog.ExprEqual{Column: "a", Value: "x"}}, GroupBy: []string{"b"}}, true},
		{&proto.Query{Expr: pOr(pEq("a", "x"), pEq("b", "q")), GroupBy: []string{"a", "b"}}, &updog.Query{Expr: &updog.ExprOr{Exprs: []updog.Expression{&updog.ExprEqual{Column: "a", Value: "x"}, &updog.ExprEqual{Column: "b", Value: "q"}}}, GroupBy: []string{"a", "b"}}, true},
		{&proto.Query{Expr: pAnd(pEq("a", "y"), pEq("b", "zz")), GroupBy: []string{"a"}}, &updog.Query{Expr: &updog.ExprAnd{Exprs: []updog.Expression{&updog.ExprEqual{Column: "a", Value: "y"}, &updog.ExprEqual{Column: "b", Value: "zz"}}}, GroupBy: []string{"a"}}, true},
		{&proto.Query{Expr: pEq("nosuch", "x")}, nil, false},
		{&proto.Query{Expr: pEq("a", "x"), GroupBy: []string{"nosuch"}}, nil, false},
	}
}

func srvSameResult(pr *proto.Result, r *updog.Result) bool {
	if pr.TotalCount != r.Count || len(pr.Groups) != len(r.Groups) {
		return false
	}
	for i, g := range r.Groups {
		pg := pr.Groups[i]
		if pg.Count != g.Count || len(pg.Fields) != len(g.Fields) {
			return false
		}
		for j, f := range g.Fields {
			if pg.Fields[j].Column != f.Column || pg.Fields[j].Value != f.Value {
				return false
			}
		}
	}
	return true
}

// srvRefExpr is the harness's own conversion of a request tree: a missing node becomes a nil
// Expression (which the library rejects), nothing is dropped or invented.
func srvRefExpr(e *proto.Query_Expression) updog.Expression {
	if e == nil {
		return nil
	}
	switch v := e.Value.(type) {
	case *proto.Query_Expression_Eq:
		return &updog.ExprEqual{Column: v.Eq.Column, Value: v.Eq.Value}
	case *proto.Query_Expression_Not_:
		return &updog.ExprNot{Expr: srvRefExpr(v.Not.Expr)}
	case *proto.Query_Expression_And_:
		x := &updog.ExprAnd{}
		for _, k := range v.And.Exprs {
			x.Exprs = append(x.Exprs, srvRefExpr(k))
		}
		return x
	case *proto.Query_Expression_Or_:
		x := &updog.ExprOr{}
		for _, k := range v.Or.Exprs {
			x.Exprs = append(x.Exprs, srvRefExpr(k))
		}
		return x
	}
	return nil
}

// HarnessC13Invalid: a batch whose member is a structurally incomplete tree. Whatever the
// library says about that query (judged through the reference conversion) the service must
// say too: an error fails the whole call, a result is returned unchanged.
func HarnessC13Invalid() {
	path := verifTempPath("c13i.updog")
	srvBuild(path)
	idx, err := updog.OpenIndex(path)
	if err != nil {
		panic(err)
	}
	s := &server{idx: idx}
	bad := &proto.Query{Expr: srvMalformed(1 + verifTier())}
	good := &proto.Query{Expr: pEq("a", "x")}
	req := &proto.QueryRequest{Queries: []*proto.Query{good, bad}}
	if verifBool("bad-first") {
		req.Queries = []*proto.Query{bad, good}
	}
	want, werr := idx.Execute(&updog.Query{Expr: srvRefExpr(bad.Expr)})
	resp, err := s.Query(context.Background(), req)
	if werr != nil {
		verifAssert(err != nil && resp == nil, "C13: a batch with a member the library rejects must fail as a whole")
	} else {
		verifAssert(err == nil && resp != nil && len(resp.Results) == 2, "C13: a batch of valid queries failed")
		if err == nil && resp != nil && len(resp.Results) == 2 {
			i := 1
			if req.Queries[0] == bad {
				i = 0
			}
			verifAssert(srvSameResult(resp.Results[i], want), "C13: a batched result differs from the library's result for that query")
		}
	}
	idx.Close()
	verifReach("end")
}

func HarnessC13Batch() {
	path := verifTempPath("c13.updog")
	srvBuild(path)
	var opts []updog.IndexOption
	if verifBool("cache") {
		opts = append(opts, updog.WithCache(updog.NewLRUCache(^uint64(0))))
	}
	if verifBool("preload") {
		opts = append(opts, updog.WithPreloadedData())
	}
	idx, err := updog.OpenIndex(path, opts...)
	if err != nil {
		panic(err)
	}
	s := &server{idx: idx}
	qs := srvQueries()
	n := verifChoice("batch", 4)
	req := &proto.QueryRequest{}
	var picked []srvQ
	var ids []int32
	anyInvalid := false
	for i := 0; i < n; i++ {
		q := qs[verifChoice("query", len(qs))]
		id := verifI32("id")
		pb := &proto.Query{Expr: q.pb.Expr, GroupBy: q.pb.GroupBy, Id: id}
		req.Queries = append(req.Queries, pb)
		picked = append(picked, q)
		ids = append(ids, id)
		if !q.valid {
			anyInvalid = true
		}
	}
	resp, err := s.Query(context.Background(), req)
	if anyInvalid {
		verifAssert(err != nil && resp == nil, "C13: a batch with an invalid member must fail as a whole")
		verifReach("end")
		return
	}
	verifAssert(err == nil && resp != nil, "C13: a valid batch failed")
	if err != nil || resp == nil {
		return
	}
	verifAssert(len(resp.Results) == n, "C13: exactly one result per query")
	if len(resp.Results) != n {
		return
	}
	// a later request must not change a response already handed out (gRPC serialises it after
	// the handler has returned)
	if n > 0 {
		other := &proto.QueryRequest{Queries: []*proto.Query{{Expr: pEq("b", "q"), Id: 77}, {Expr: pNot(pEq("b", "q")), Id: 78}}}
		if _, err := s.Query(context.Background(), other); err != nil {
			panic(err)
		}
		verifAssert(len(resp.Results) == n, "C13: a response changed after the handler returned (a later request reused it)")
		if len(resp.Results) != n {
			return
		}
	}
	for i, q := range picked {
		want, err := idx.Execute(q.lib)
		if err != nil {
			panic(err)
		}
		wantID := ids[i]
		if wantID == 0 {
			wantID = int32(i + 1)
		}
		verifAssert(resp.Results[i].QueryId == wantID, "C13: results are tagged with the query id, or the 1-based position when the id is 0")
		verifAssert(srvSameResult(resp.Results[i], want), "C13: a batched result differs from the library's result for that query")
	}
	idx.Close()
	verifReach("end")
}

// HarnessC13Convert: ToResult(ToProtobufResult(r)) == r for symbolic counts and strings.
func HarnessC13Convert() {
	ng := verifChoice("groups", 3)
	nf := verifChoice("fields", 3)
	r := &updog.Result{Count: verifU64("total")}
	for i := 0; i < ng; i++ {
		g := updog.ResultGroup{Count: verifU64("count")}
		for j := 0; j < nf; j++ {
			g.Fields = append(g.Fields, updog.ResultField{Column: verifString("col", 1+verifChoice("clen", 2)), Value: verifString("val", verifChoice("vlen", 2))})
		}
		r.Groups = append(r.Groups, g)
	}
	qid := verifI32("qid")
	pr := convert.ToProtobufResult(r, qid)
	verifAssert(pr.QueryId == qid, "C13: conversion must keep the query id")
	verifAssert(srvSameResult(pr, r), "C13: conversion to protobuf lost or changed result data")
	back := convert.ToResult(pr)
	verifAssert(srvSameResult(pr, back) && back.Count == r.Count && len(back.Groups) == len(r.Groups), "C13: conversion from protobuf lost or changed result data")
	verifReach("end")
}

// ---------------------------------------------------------------------------
// C14: request trees in which any pointer the wire format can leave nil is nil.

// srvMalformed builds a tree of the given depth; at every position it may omit what the
// wire format allows to be absent.
func srvMalformed(depth int) *proto.Query_Expression {
	kinds := 4
	if depth > 0 {
		kinds = 9
	}
	switch verifChoice("node", kinds) {
	case 8:
		// a chain of 2..4 negations around something absent or present (rewrites of nested
		// negations must not lose sight of what is missing underneath)
		var e *proto.Query_Expression
		switch verifChoice("under-the-chain", 3) {
		case 0:
			e = pNot(nil)
		case 1:
			e = pNot(&proto.Query_Expression{})
		default:
			e = pNot(pEq("a", "x"))
		}
		for n := 1 + verifChoice("chain", 3); n > 0; n-- {
			e = pNot(e)
		}
		return e
	case 0:
		return pEq("a", "x")
	case 1:
		return &proto.Query_Expression{} // oneof not set
	case 2:
		return pEq("nosuch", "v")
	case 3: // a placeholder nobody resolved (the server is not given arguments)
		return &proto.Query_Expression{Value: &proto.Query_Expression_Eq{Eq: &proto.Query_Expression_Equal{Column: "a", Placeholder: 1}}}
	case 4:
		return pNot(nil) // NOT without operand
	case 5:
		return pNot(srvMalformed(depth - 1))
	case 6:
		n := verifChoice("operands", 3)
		var es []*proto.Query_Expression
		for i := 0; i < n; i++ {
			es = append(es, srvMalformed(depth-1))
		}
		return pAnd(es...)
	default:
		n := verifChoice("operands", 3)
		var es []*proto.Query_Expression
		for i := 0; i < n; i++ {
			es = append(es, srvMalformed(depth-1))
		}
		return pOr(es...)
	}
}

func HarnessC14Malformed() {
	path := verifTempPath("c14.updog")
	srvBuild(path)
	var opts []updog.IndexOption
	if verifBool("cache") {
		opts = append(opts, updog.WithCache(updog.NewLRUCache(^uint64(0))))
	}
	idx, err := updog.OpenIndex(path, opts...)
	if err != nil {
		panic(err)
	}
	s := &server{idx: idx}
	depth := 1
	if verifTier() > 0 {
		depth = 2
	}
	var q *proto.Query
	if verifBool("no-expression") {
		q = &proto.Query{}
	} else {
		q = &proto.Query{Expr: srvMalformed(depth)}
	}
	if verifBool("groupby") {
		q.GroupBy = []string{"a"}
	}
	// the request around it: the query alone, no query at all (the empty message), or the query
	// before/after a well-formed one
	var req *proto.QueryRequest
	switch verifChoice("request-shape", 4) {
	case 0:
		req = &proto.QueryRequest{Queries: []*proto.Query{q}}
	case 1:
		req = &proto.QueryRequest{}
	case 2:
		req = &proto.QueryRequest{Queries: []*proto.Query{q, {Expr: pEq("a", "x")}}}
	default:
		req = &proto.QueryRequest{Queries: []*proto.Query{{Expr: pEq("a", "x")}, q}}
	}
	// a panic here is the violation (grpc-go has no recovery: the process would die)
	resp, err := s.Query(context.Background(), req)
	verifAssert((err == nil) != (resp == nil), "C14: a request must be answered with a response or with an error")
	// the server keeps answering well-formed requests correctly
	probe := &proto.QueryRequest{Queries: []*proto.Query{{Expr: pEq("a", "x")}}}
	pr, perr := s.Query(context.Background(), probe)
	verifAssert(perr == nil && pr != nil && len(pr.Results) == 1 && pr.Results[0].TotalCount == 2, "C14: a well-formed request after a malformed one is not answered correctly")
	idx.Close()
	verifReach("end")
}

// HarnessC13Concurrent: two requests in flight at once on one server (as grpc-go runs them:
// one goroutine per RPC), the same query or two different ones, with or without a cache.
// Happens-before race detection over the handlers, every interleaving at synchronisation
// points within the preemption bound; each response must be the library's answer, and the
// server must still answer a probe afterwards (C14).
func HarnessC13Concurrent() {
	path := verifTempPath("c13c.updog")
	srvBuild(path)
	var opts []updog.IndexOption
	if verifBool("cache") {
		opts = append(opts, updog.WithCache(updog.NewLRUCache(^uint64(0))))
	}
	idx, err := updog.OpenIndex(path, opts...)
	if err != nil {
		panic(err)
	}
	s := &server{idx: idx}
	qs := srvQueries()
	pick := []int{1, 2} // grouped queries with NOT / OR sub-expressions
	fi := verifChoice("first", 2)
	first := pick[fi]
	second := []int{first, pick[1-fi], 0}[verifChoice("second", 3)] // the same query, the other grouped one, an ungrouped one
	// reference answers, computed beforehand on a separate handle of the same data
	refPath := verifTempPath("c13c_ref.updog")
	srvBuild(refPath)
	ref, err := updog.OpenIndex(refPath)
	if err != nil {
		panic(err)
	}
	want := make([]*updog.Result, 2)
	for i, qi := range []int{first, second} {
		r, err := ref.Execute(qs[qi].lib)
		if err != nil {
			panic(err)
		}
		want[i] = r
	}
	ref.Close()
	resps := make([]*proto.QueryResponse, 2)
	errs := make([]error, 2)
	var wg sync.WaitGroup
	verifPreemptions(1 + verifTier())
	verifSchedule(true)
	verifLockset(true)
	for g, qi := range []int{first, second} {
		wg.Add(1)
		go func(g, qi int) {
			defer wg.Done()
			// every RPC carries its own decoded message
			req := &proto.QueryRequest{Queries: []*proto.Query{{Expr: srvQueries()[qi].pb.Expr, GroupBy: srvQueries()[qi].pb.GroupBy, Id: int32(10 + g)}}}
			resps[g], errs[g] = s.Query(context.Background(), req)
		}(g, qi)
	}
	wg.Wait()
	verifLockset(false)
	verifSchedule(false)
	verifRaceFree("C13: concurrent requests access shared state without a common lock")
	for g := 0; g < 2; g++ {
		verifAssert(errs[g] == nil && resps[g] != nil && len(resps[g].Results) == 1, "C13: a well-formed request sent concurrently with another one was not answered")
		if errs[g] == nil && resps[g] != nil && len(resps[g].Results) == 1 {
			verifAssert(resps[g].Results[0].QueryId == int32(10+g), "C13: a concurrent request got a result tagged with another id")
			verifAssert(srvSameResult(resps[g].Results[0], want[g]), "C13: a request sent concurrently with another one got a result that differs from the library's")
		}
	}
	probe := &proto.QueryRequest{Queries: []*proto.Query{{Expr: pEq("a", "x")}}}
	pr, perr := s.Query(context.Background(), probe)
	verifAssert(perr == nil && pr != nil && len(pr.Results) == 1 && pr.Results[0].TotalCount == 2, "C14: a well-formed request after concurrent ones is not answered correctly")
	idx.Close()
	verifReach("end")
}

// HarnessC14Deep: a deeply nested request (40 levels of AND / OR / NOT around one comparison,
// about a kilobyte on the wire) is answered — with a result, or with an error when the
// comparison at the bottom names an unknown column — and the probe afterwards as well. The
// work must stay proportional to the size of the request: a run that does not end within the
// unwind bound is handed to the native replay, where not finishing is the violation.
func HarnessC14Deep() {
	path := verifTempPath("c14d.updog")
	srvBuild(path)
	var opts []updog.IndexOption
	if verifBool("cache") {
		opts = append(opts, updog.WithCache(updog.NewLRUCache(^uint64(0))))
	}
	idx, err := updog.OpenIndex(path, opts...)
	if err != nil {
		panic(err)
	}
	s := &server{idx: idx}
	unknown := verifBool("unknown-column-at-the-bottom")
	e := pEq("a", "x")
	if unknown {
		e = pEq("nosuch", "x")
	}
	nots := 0
	style := verifChoice("nesting", 3)
	for d := 0; d < 40; d++ {
		switch (d + style) % 3 {
		case 0:
			e = pAnd(e, pNot(pEq("b", "nope"))) // AND with all rows
		case 1:
			e = pOr(e, pEq("b", "nope")) // OR with no row
		default:
			e = pNot(e)
			nots++
		}
	}
	// a long group-by list (the same two columns over and over) comes with it in one variant
	var gb []string
	longList := verifBool("group-by-list-of-63")
	if longList {
		// 63 entries over two-valued columns: 2^63 value combinations (any arithmetic on that
		// number in a machine word is at its limit), of which at most five have rows
		for i := 0; i < 63; i++ {
			gb = append(gb, []string{"b", "a"}[i%2])
		}
	}
	resp, qerr := s.Query(context.Background(), &proto.QueryRequest{Queries: []*proto.Query{{Expr: e, GroupBy: gb}}})
	if unknown {
		verifAssert(qerr != nil && resp == nil, "C14: a deeply nested request over an unknown column must be answered with an error")
	} else {
		want := uint64(2) // rows with a = x; an odd number of NOTs leaves the other 3 of 5 rows
		if nots%2 == 1 {
			want = 3
		}
		verifAssert(qerr == nil && resp != nil && len(resp.Results) == 1 && resp.Results[0].TotalCount == want, "C14: a deeply nested request is not answered correctly")
	}
	probe := &proto.QueryRequest{Queries: []*proto.Query{{Expr: pEq("a", "x")}}}
	pr, perr := s.Query(context.Background(), probe)
	verifAssert(perr == nil && pr != nil && len(pr.Results) == 1 && pr.Results[0].TotalCount == 2, "C14: a well-formed request after a deeply nested one is not answered correctly")
	idx.Close()
	verifReach("end")
}
