package sym

import (
	"fmt"
	"math/bits"
	"strings"
)

// Op is a term operator.
type Op uint8

const (
	OpConst Op = iota
	OpVar
	OpAdd
	OpSub
	OpMul
	OpUDiv
	OpSDiv
	OpURem
	OpSRem
	OpAnd
	OpOr
	OpXor
	OpShl // Go semantics handled by caller (shift amount same width)
	OpLShr
	OpAShr
	OpNot // bitwise
	OpNeg
	OpEq   // -> Bool
	OpUlt  // -> Bool
	OpUle  // -> Bool
	OpSlt  // -> Bool
	OpSle  // -> Bool
	OpIte  // cond(Bool), a, b
	OpZext // to width w
	OpSext
	OpExtract // val=lo, w=width
	OpConcat  // args[0] high, args[1] low
	OpBAnd    // Bool
	OpBOr
	OpBNot
	OpUF // uninterpreted function name(args) -> w
)

// Term is a bit-vector (w in 1..64) or boolean (w==0) expression.
type Term struct {
	op   Op
	w    uint8
	val  uint64
	name string
	args []*Term
	id   int32   // SMT definition id within the current solver scope (0 = none)
	gen  int32   // generation of id
	h    uint64  // structural hash (0 = not computed)
	vs   []*Term // distinct variables (computed lazily; nil = not computed; capped at 3)
	vsOK bool
	tt   *[4]uint64   // truth table over the single byte variable (byte conditions only)
	vec  *[256]uint64 // value for each value of the single byte variable
}

func (t *Term) IsConst() bool { return t.op == OpConst }
func (t *Term) W() int        { return int(t.w) }
func (t *Term) IsBool() bool  { return t.w == 0 }

func mask(w uint8) uint64 {
	if w >= 64 {
		return ^uint64(0)
	}
	if w == 0 {
		return 1
	}
	return (uint64(1) << w) - 1
}

var (
	trueT  = &Term{op: OpConst, w: 0, val: 1}
	falseT = &Term{op: OpConst, w: 0, val: 0}
)

// small constant cache
var constCache [65][256]*Term

func init() {
	for w := 1; w <= 64; w++ {
		for v := 0; v < 256; v++ {
			constCache[w][v] = &Term{op: OpConst, w: uint8(w), val: uint64(v) & mask(uint8(w))}
		}
	}
}

func K(w int, v uint64) *Term {
	if w == 0 {
		if v&1 == 1 {
			return trueT
		}
		return falseT
	}
	v &= mask(uint8(w))
	if v < 256 {
		return constCache[w][v]
	}
	return &Term{op: OpConst, w: uint8(w), val: v}
}

func KB(b bool) *Term {
	if b {
		return trueT
	}
	return falseT
}

func Var(name string, w int) *Term { return &Term{op: OpVar, w: uint8(w), name: name} }

func sx(v uint64, w uint8) int64 {
	if w >= 64 {
		return int64(v)
	}
	sh := 64 - w
	return int64(v<<sh) >> sh
}

func evalBin(op Op, w uint8, a, b uint64) uint64 {
	m := mask(w)
	switch op {
	case OpAdd:
		return (a + b) & m
	case OpSub:
		return (a - b) & m
	case OpMul:
		return (a * b) & m
	case OpUDiv:
		if b == 0 {
			return m
		}
		return (a / b) & m
	case OpURem:
		if b == 0 {
			return a
		}
		return (a % b) & m
	case OpSDiv:
		if b == 0 {
			if sx(a, w) < 0 {
				return 1
			}
			return m
		}
		sa, sb := sx(a, w), sx(b, w)
		if sb == -1 {
			return uint64(-sa) & m
		}
		return uint64(sa/sb) & m
	case OpSRem:
		if b == 0 {
			return a
		}
		sa, sb := sx(a, w), sx(b, w)
		if sb == -1 {
			return 0
		}
		return uint64(sa%sb) & m
	case OpAnd:
		return a & b
	case OpOr:
		return a | b
	case OpXor:
		return a ^ b
	case OpShl:
		if b >= uint64(w) {
			return 0
		}
		return (a << b) & m
	case OpLShr:
		if b >= uint64(w) {
			return 0
		}
		return (a >> b) & m
	case OpAShr:
		sa := sx(a, w)
		if b >= uint64(w) {
			b = uint64(w) - 1
		}
		return uint64(sa>>b) & m
	}
	panic("evalBin: bad op")
}

func evalCmp(op Op, w uint8, a, b uint64) bool {
	switch op {
	case OpEq:
		return a == b
	case OpUlt:
		return a < b
	case OpUle:
		return a <= b
	case OpSlt:
		return sx(a, w) < sx(b, w)
	case OpSle:
		return sx(a, w) <= sx(b, w)
	}
	panic("evalCmp: bad op")
}

// Bin builds a binary bit-vector operation with folding and light simplification.
func Bin(op Op, a, b *Term) *Term {
	if a.w != b.w {
		panic(fmt.Sprintf("Bin %d: width mismatch %d vs %d", op, a.w, b.w))
	}
	w := a.w
	if w == 0 {
		panic("Bin on bool")
	}
	if a.op == OpConst && b.op == OpConst {
		return K(int(w), evalBin(op, w, a.val, b.val))
	}
	switch op {
	case OpAdd:
		if a.op == OpConst && a.val == 0 {
			return b
		}
		if b.op == OpConst && b.val == 0 {
			return a
		}
	case OpSub:
		if b.op == OpConst && b.val == 0 {
			return a
		}
		if a == b {
			return K(int(w), 0)
		}
	case OpMul:
		if a.op == OpConst && a.val == 1 {
			return b
		}
		if b.op == OpConst && b.val == 1 {
			return a
		}
		if (a.op == OpConst && a.val == 0) || (b.op == OpConst && b.val == 0) {
			return K(int(w), 0)
		}
	case OpAnd:
		if a == b {
			return a
		}
		if a.op == OpConst {
			if a.val == 0 {
				return a
			}
			if a.val == mask(w) {
				return b
			}
		}
		if b.op == OpConst {
			if b.val == 0 {
				return b
			}
			if b.val == mask(w) {
				return a
			}
		}
	case OpOr:
		if a == b {
			return a
		}
		if a.op == OpConst {
			if a.val == 0 {
				return b
			}
			if a.val == mask(w) {
				return a
			}
		}
		if b.op == OpConst {
			if b.val == 0 {
				return a
			}
			if b.val == mask(w) {
				return b
			}
		}
	case OpXor:
		if a == b {
			return K(int(w), 0)
		}
		if a.op == OpConst && a.val == 0 {
			return b
		}
		if b.op == OpConst && b.val == 0 {
			return a
		}
	case OpShl, OpLShr, OpAShr:
		if b.op == OpConst && b.val == 0 {
			return a
		}
		if a.op == OpConst && a.val == 0 {
			return a
		}
		if b.op == OpConst && b.val >= uint64(w) && op != OpAShr {
			return K(int(w), 0)
		}
	}
	if op == OpOr || op == OpAdd || op == OpXor {
		if r := mergePieces(a, b); r != nil {
			return r
		}
	}
	if op == OpShl && b.op == OpConst && (a.op == OpZext || a.op == OpConcat || a.op == OpExtract) {
		// (zext x) << k  ==> placed slice, kept as zext(concat(x', 0_k))
		if ps, ok := pieces(a, 0); ok {
			k := int(b.val)
			var shifted []piece
			for _, p := range ps {
				shifted = append(shifted, piece{p.t, p.sh + k})
			}
			if r := assemble(shifted, int(w)); r != nil {
				return r
			}
		}
	}
	return &Term{op: op, w: w, args: []*Term{a, b}}
}

// piece is a term placed at a bit offset; all other bits are zero.
type piece struct {
	t  *Term
	sh int
}

// pieces decomposes t into disjoint placed slices when its shape allows it.
func pieces(t *Term, depth int) ([]piece, bool) {
	if depth > 12 {
		return nil, false
	}
	switch t.op {
	case OpConst:
		if t.val == 0 {
			return nil, true
		}
		return []piece{{t, 0}}, true
	case OpZext:
		ps, ok := pieces(t.args[0], depth+1)
		if !ok {
			return []piece{{t.args[0], 0}}, true
		}
		return ps, true
	case OpConcat:
		lo, ok1 := pieces(t.args[1], depth+1)
		hi, ok2 := pieces(t.args[0], depth+1)
		if !ok1 {
			lo = []piece{{t.args[1], 0}}
		}
		if !ok2 {
			hi = []piece{{t.args[0], 0}}
		}
		out := append([]piece(nil), lo...)
		for _, p := range hi {
			out = append(out, piece{p.t, p.sh + int(t.args[1].w)})
		}
		return out, true
	}
	return []piece{{t, 0}}, true
}

// assemble builds zext(concat(...)) of width w from disjoint pieces; nil if they overlap or overflow.
func assemble(ps []piece, w int) *Term {
	if len(ps) == 0 {
		return K(w, 0)
	}
	// sort by offset (insertion sort; tiny lists)
	for i := 1; i < len(ps); i++ {
		for j := i; j > 0 && ps[j].sh < ps[j-1].sh; j-- {
			ps[j], ps[j-1] = ps[j-1], ps[j]
		}
	}
	var cur *Term
	pos := 0
	for _, p := range ps {
		if p.sh < pos {
			return nil // overlap
		}
		pt := p.t
		if p.sh+int(pt.w) > w {
			// truncate what is shifted out
			keep := w - p.sh
			if keep <= 0 {
				continue
			}
			pt = Extract(pt, 0, keep)
		}
		if p.sh > pos {
			z := K(p.sh-pos, 0)
			if cur == nil {
				cur = z
			} else {
				cur = Concat(z, cur)
			}
		}
		if cur == nil {
			cur = pt
		} else {
			cur = Concat(pt, cur)
		}
		pos = p.sh + int(pt.w)
	}
	if cur == nil {
		return K(w, 0)
	}
	return Zext(cur, w)
}

// mergePieces combines a|b (or a+b, a^b) when both are disjoint placed slices.
func mergePieces(a, b *Term) *Term {
	interesting := func(t *Term) bool { return t.op == OpZext || t.op == OpConcat }
	if !interesting(a) || !interesting(b) {
		return nil
	}
	pa, ok1 := pieces(a, 0)
	pb, ok2 := pieces(b, 0)
	if !ok1 || !ok2 {
		return nil
	}
	all := append(append([]piece(nil), pa...), pb...)
	return assemble(all, int(a.w))
}

func Cmp(op Op, a, b *Term) *Term {
	if a.w != b.w {
		panic(fmt.Sprintf("Cmp: width mismatch %d vs %d", a.w, b.w))
	}
	if a.w == 0 {
		// boolean equality
		if op != OpEq {
			panic("Cmp on bool")
		}
		if a.op == OpConst {
			if a.val == 1 {
				return b
			}
			return BNot(b)
		}
		if b.op == OpConst {
			if b.val == 1 {
				return a
			}
			return BNot(a)
		}
		if a == b {
			return trueT
		}
		return &Term{op: OpEq, w: 0, args: []*Term{a, b}}
	}
	if a.op == OpConst && b.op == OpConst {
		return KB(evalCmp(op, a.w, a.val, b.val))
	}
	if a == b {
		switch op {
		case OpEq, OpUle, OpSle:
			return trueT
		default:
			return falseT
		}
	}
	// eq(ite(c,k1,k2), k) with constants
	if op == OpEq {
		if a.op == OpConst {
			a, b = b, a
		}
		// card(x) = 0  <=>  x = 0 (axiom of the cardinality function)
		if b.op == OpConst && b.val == 0 && a.op == OpUF && a.name == "card" {
			return Cmp(OpEq, a.args[0], K(int(a.args[0].w), 0))
		}
		if b.op == OpConst && a.op == OpIte && a.args[1].op == OpConst && a.args[2].op == OpConst {
			t1 := a.args[1].val == b.val
			t2 := a.args[2].val == b.val
			switch {
			case t1 && t2:
				return trueT
			case t1:
				return a.args[0]
			case t2:
				return BNot(a.args[0])
			default:
				return falseT
			}
		}
		// eq(zext(x), k)
		if b.op == OpConst && a.op == OpZext {
			x := a.args[0]
			if b.val > mask(x.w) {
				return falseT
			}
			return Cmp(OpEq, x, K(int(x.w), b.val))
		}
	}
	if op == OpUlt && b.op == OpConst && b.val == 0 {
		return falseT
	}
	if op == OpUle && a.op == OpConst && a.val == 0 {
		return trueT
	}
	if (op == OpUlt || op == OpUle) && a.op == OpZext && b.op == OpConst {
		x := a.args[0]
		if b.val > mask(x.w) {
			return trueT
		}
		return Cmp(op, x, K(int(x.w), b.val))
	}
	if (op == OpUlt || op == OpUle) && b.op == OpZext && a.op == OpConst {
		x := b.args[0]
		if a.val > mask(x.w) {
			return falseT
		}
		return Cmp(op, K(int(x.w), a.val), x)
	}
	if (op == OpSlt || op == OpSle) && a.op == OpZext && b.op == OpConst && a.args[0].w < a.w {
		// zext value is non-negative
		x := a.args[0]
		sb := sx(b.val, b.w)
		if sb < 0 {
			return falseT
		}
		if uint64(sb) > mask(x.w) {
			return trueT
		}
		uop := OpUlt
		if op == OpSle {
			uop = OpUle
		}
		return Cmp(uop, x, K(int(x.w), uint64(sb)))
	}
	if (op == OpSlt || op == OpSle) && b.op == OpZext && a.op == OpConst && b.args[0].w < b.w {
		x := b.args[0]
		sa := sx(a.val, a.w)
		if sa < 0 {
			return trueT
		}
		if uint64(sa) > mask(x.w) {
			return falseT
		}
		uop := OpUlt
		if op == OpSle {
			uop = OpUle
		}
		return Cmp(uop, K(int(x.w), uint64(sa)), x)
	}
	return &Term{op: op, w: 0, args: []*Term{a, b}}
}

func BNot(a *Term) *Term {
	if a.w != 0 {
		panic("BNot on bv")
	}
	if a.op == OpConst {
		return KB(a.val == 0)
	}
	if a.op == OpBNot {
		return a.args[0]
	}
	return &Term{op: OpBNot, w: 0, args: []*Term{a}}
}

func BAnd(a, b *Term) *Term {
	if a.w != 0 || b.w != 0 {
		panic("BAnd on bv")
	}
	if a.op == OpConst {
		if a.val == 1 {
			return b
		}
		return falseT
	}
	if b.op == OpConst {
		if b.val == 1 {
			return a
		}
		return falseT
	}
	if a == b {
		return a
	}
	return &Term{op: OpBAnd, w: 0, args: []*Term{a, b}}
}

func BOr(a, b *Term) *Term {
	if a.w != 0 || b.w != 0 {
		panic("BOr on bv")
	}
	if a.op == OpConst {
		if a.val == 1 {
			return trueT
		}
		return b
	}
	if b.op == OpConst {
		if b.val == 1 {
			return trueT
		}
		return a
	}
	if a == b {
		return a
	}
	return &Term{op: OpBOr, w: 0, args: []*Term{a, b}}
}

func Ite(c, a, b *Term) *Term {
	if c.w != 0 {
		panic("Ite cond not bool")
	}
	if a.w != b.w {
		panic("Ite width mismatch")
	}
	if c.op == OpConst {
		if c.val == 1 {
			return a
		}
		return b
	}
	if a == b {
		return a
	}
	if a.op == OpConst && b.op == OpConst && a.val == b.val {
		return a
	}
	if a.w == 0 {
		if a.op == OpConst && b.op == OpConst {
			if a.val == 1 {
				return c
			}
			return BNot(c)
		}
	}
	return &Term{op: OpIte, w: a.w, args: []*Term{c, a, b}}
}

func Not(a *Term) *Term {
	if a.op == OpConst {
		return K(int(a.w), ^a.val)
	}
	if a.op == OpNot {
		return a.args[0]
	}
	return &Term{op: OpNot, w: a.w, args: []*Term{a}}
}

func Neg(a *Term) *Term {
	if a.op == OpConst {
		return K(int(a.w), -a.val)
	}
	return &Term{op: OpNeg, w: a.w, args: []*Term{a}}
}

func Zext(a *Term, w int) *Term {
	if int(a.w) == w {
		return a
	}
	if int(a.w) > w {
		return Extract(a, 0, w)
	}
	if a.op == OpConst {
		return K(w, a.val)
	}
	if a.op == OpZext {
		return Zext(a.args[0], w)
	}
	return &Term{op: OpZext, w: uint8(w), args: []*Term{a}}
}

func Sext(a *Term, w int) *Term {
	if int(a.w) == w {
		return a
	}
	if int(a.w) > w {
		return Extract(a, 0, w)
	}
	if a.op == OpConst {
		return K(w, uint64(sx(a.val, a.w)))
	}
	if a.op == OpZext && a.args[0].w < a.w {
		return Zext(a.args[0], w)
	}
	return &Term{op: OpSext, w: uint8(w), args: []*Term{a}}
}

// Extract returns bits [lo, lo+w) of a.
func Extract(a *Term, lo, w int) *Term {
	if lo == 0 && w == int(a.w) {
		return a
	}
	if lo+w > int(a.w) {
		panic("Extract out of range")
	}
	if a.op == OpConst {
		return K(w, a.val>>uint(lo))
	}
	switch a.op {
	case OpZext:
		x := a.args[0]
		if lo+w <= int(x.w) {
			return Extract(x, lo, w)
		}
		if lo >= int(x.w) {
			return K(w, 0)
		}
		if lo == 0 {
			return Zext(x, w)
		}
	case OpSext:
		x := a.args[0]
		if lo+w <= int(x.w) {
			return Extract(x, lo, w)
		}
	case OpConcat:
		hi, l := a.args[0], a.args[1]
		if lo+w <= int(l.w) {
			return Extract(l, lo, w)
		}
		if lo >= int(l.w) {
			return Extract(hi, lo-int(l.w), w)
		}
	case OpExtract:
		return Extract(a.args[0], lo+int(a.val), w)
	case OpLShr:
		// extract(x >> k) with const k
		if a.args[1].op == OpConst {
			k := int(a.args[1].val)
			if lo+k+w <= int(a.w) {
				return Extract(a.args[0], lo+k, w)
			}
		}
	case OpAnd, OpOr, OpXor:
		if lo == 0 || true {
			return Bin(a.op, Extract(a.args[0], lo, w), Extract(a.args[1], lo, w))
		}
	}
	return &Term{op: OpExtract, w: uint8(w), val: uint64(lo), args: []*Term{a}}
}

func Concat(hi, lo *Term) *Term {
	w := int(hi.w) + int(lo.w)
	if w > 64 {
		panic("Concat > 64 bits")
	}
	if hi.op == OpConst && lo.op == OpConst {
		return K(w, hi.val<<lo.w|lo.val)
	}
	if hi.op == OpConst && hi.val == 0 {
		return Zext(lo, w)
	}
	// concat(extract(x, k+n, m), extract(x, k, n)) = extract(x, k, n+m)
	if hi.op == OpExtract && lo.op == OpExtract && hi.args[0] == lo.args[0] && hi.val == lo.val+uint64(lo.w) {
		return Extract(hi.args[0], int(lo.val), w)
	}
	if hi.op == OpExtract && hi.args[0] == lo && hi.val == uint64(lo.w) {
		// concat(extract(x, n, m), x[0:n]) where lo is the whole x?? only if lo.w == n: then x has width >= n+m
	}
	return &Term{op: OpConcat, w: uint8(w), args: []*Term{hi, lo}}
}

func UF(name string, w int, args ...*Term) *Term {
	return &Term{op: OpUF, w: uint8(w), name: name, args: args}
}

// ---------------------------------------------------------------------------
// evaluation under an assignment

type Assignment struct {
	Vars map[string]uint64
	// UF interpretations: name -> (args key -> value)
	UFs map[string]map[string]uint64
	// default for UF applications without entry
	UFElse map[string]uint64
}

func (as *Assignment) Eval(t *Term) uint64 {
	memo := map[*Term]uint64{}
	return as.eval(t, memo)
}

func ufKey(args []uint64) string {
	var sb strings.Builder
	for _, a := range args {
		fmt.Fprintf(&sb, "%x,", a)
	}
	return sb.String()
}

func (as *Assignment) eval(t *Term, memo map[*Term]uint64) uint64 {
	if t.op == OpConst {
		return t.val
	}
	if v, ok := memo[t]; ok {
		return v
	}
	var r uint64
	switch t.op {
	case OpVar:
		r = as.Vars[t.name] & mask(t.w)
	case OpAdd, OpSub, OpMul, OpUDiv, OpSDiv, OpURem, OpSRem, OpAnd, OpOr, OpXor, OpShl, OpLShr, OpAShr:
		r = evalBin(t.op, t.w, as.eval(t.args[0], memo), as.eval(t.args[1], memo))
	case OpNot:
		r = ^as.eval(t.args[0], memo) & mask(t.w)
	case OpNeg:
		r = -as.eval(t.args[0], memo) & mask(t.w)
	case OpEq:
		if as.eval(t.args[0], memo) == as.eval(t.args[1], memo) {
			r = 1
		}
	case OpUlt, OpUle, OpSlt, OpSle:
		if evalCmp(t.op, t.args[0].w, as.eval(t.args[0], memo), as.eval(t.args[1], memo)) {
			r = 1
		}
	case OpIte:
		if as.eval(t.args[0], memo) == 1 {
			r = as.eval(t.args[1], memo)
		} else {
			r = as.eval(t.args[2], memo)
		}
	case OpZext:
		r = as.eval(t.args[0], memo)
	case OpSext:
		r = uint64(sx(as.eval(t.args[0], memo), t.args[0].w)) & mask(t.w)
	case OpExtract:
		r = (as.eval(t.args[0], memo) >> t.val) & mask(t.w)
	case OpConcat:
		r = as.eval(t.args[0], memo)<<t.args[1].w | as.eval(t.args[1], memo)
	case OpBAnd:
		r = as.eval(t.args[0], memo) & as.eval(t.args[1], memo)
	case OpBOr:
		r = as.eval(t.args[0], memo) | as.eval(t.args[1], memo)
	case OpBNot:
		r = as.eval(t.args[0], memo) ^ 1
	case OpUF:
		vals := make([]uint64, len(t.args))
		for i, a := range t.args {
			vals[i] = as.eval(a, memo)
		}
		if m, ok := as.UFs[t.name]; ok {
			if v, ok := m[ufKey(vals)]; ok {
				r = v & mask(t.w)
				break
			}
		}
		if t.name == "popcount" {
			r = uint64(bits.OnesCount64(vals[0]))
			break
		}
		r = as.UFElse[t.name] & mask(t.w)
	default:
		panic("eval: bad op")
	}
	memo[t] = r
	return r
}

// ---------------------------------------------------------------------------
// printing

func sortOf(w uint8) string {
	if w == 0 {
		return "Bool"
	}
	return fmt.Sprintf("(_ BitVec %d)", w)
}

func constStr(t *Term) string {
	if t.w == 0 {
		if t.val == 1 {
			return "true"
		}
		return "false"
	}
	if t.w%4 == 0 {
		return fmt.Sprintf("#x%0*x", int(t.w/4), t.val)
	}
	return fmt.Sprintf("(_ bv%d %d)", t.val, t.w)
}

var opNames = map[Op]string{
	OpAdd: "bvadd", OpSub: "bvsub", OpMul: "bvmul", OpUDiv: "bvudiv", OpSDiv: "bvsdiv",
	OpURem: "bvurem", OpSRem: "bvsrem", OpAnd: "bvand", OpOr: "bvor", OpXor: "bvxor",
	OpShl: "bvshl", OpLShr: "bvlshr", OpAShr: "bvashr", OpNot: "bvnot", OpNeg: "bvneg",
	OpEq: "=", OpUlt: "bvult", OpUle: "bvule", OpSlt: "bvslt", OpSle: "bvsle", OpIte: "ite",
	OpBAnd: "and", OpBOr: "or", OpBNot: "not", OpConcat: "concat",
}

// String renders the term as a (possibly large) SMT-LIB expression; debugging only.
func (t *Term) String() string {
	var sb strings.Builder
	t.write(&sb, 0)
	return sb.String()
}

func (t *Term) write(sb *strings.Builder, depth int) {
	if depth > 40 {
		sb.WriteString("...")
		return
	}
	switch t.op {
	case OpConst:
		sb.WriteString(constStr(t))
	case OpVar:
		sb.WriteString(t.name)
	case OpZext:
		fmt.Fprintf(sb, "((_ zero_extend %d) ", t.w-t.args[0].w)
		t.args[0].write(sb, depth+1)
		sb.WriteString(")")
	case OpSext:
		fmt.Fprintf(sb, "((_ sign_extend %d) ", t.w-t.args[0].w)
		t.args[0].write(sb, depth+1)
		sb.WriteString(")")
	case OpExtract:
		fmt.Fprintf(sb, "((_ extract %d %d) ", int(t.val)+int(t.w)-1, t.val)
		t.args[0].write(sb, depth+1)
		sb.WriteString(")")
	case OpUF:
		sb.WriteString("(" + t.name)
		for _, a := range t.args {
			sb.WriteString(" ")
			a.write(sb, depth+1)
		}
		sb.WriteString(")")
	default:
		sb.WriteString("(" + opNames[t.op])
		for _, a := range t.args {
			sb.WriteString(" ")
			a.write(sb, depth+1)
		}
		sb.WriteString(")")
	}
}

// HasOp reports whether any subterm uses one of the given operators.
func (t *Term) HasOp(ops ...Op) bool {
	seen := map[*Term]bool{}
	var rec func(t *Term) bool
	rec = func(t *Term) bool {
		if seen[t] {
			return false
		}
		seen[t] = true
		for _, o := range ops {
			if t.op == o {
				return true
			}
		}
		for _, a := range t.args {
			if rec(a) {
				return true
			}
		}
		return false
	}
	return rec(t)
}

// Vars collects variable names of a term.
func (t *Term) CollectVars(into map[string]uint8) {
	seen := map[*Term]bool{}
	var rec func(t *Term)
	rec = func(t *Term) {
		if seen[t] {
			return
		}
		seen[t] = true
		if t.op == OpVar {
			into[t.name] = t.w
		}
		for _, a := range t.args {
			rec(a)
		}
	}
	rec(t)
}

// Hash returns a structural hash of the term.
func (t *Term) Hash() uint64 {
	if t.h != 0 {
		return t.h
	}
	h := uint64(1469598103934665603)
	mix := func(v uint64) {
		h ^= v
		h *= 1099511628211
	}
	mix(uint64(t.op))
	mix(uint64(t.w))
	mix(t.val)
	for i := 0; i < len(t.name); i++ {
		mix(uint64(t.name[i]))
	}
	for _, a := range t.args {
		mix(a.Hash())
	}
	if h == 0 {
		h = 1
	}
	t.h = h
	return h
}

// termEqual reports structural equality.
func termEqual(a, b *Term) bool {
	if a == b {
		return true
	}
	if a.op != b.op || a.w != b.w || a.val != b.val || a.name != b.name || len(a.args) != len(b.args) {
		return false
	}
	if a.Hash() != b.Hash() {
		return false
	}
	for i := range a.args {
		if !termEqual(a.args[i], b.args[i]) {
			return false
		}
	}
	return true
}

// varsOf returns the distinct variables of t, or (nil,false) if there are more than two.
func varsOf(t *Term) ([]*Term, bool) {
	if t.vsOK {
		return t.vs, len(t.vs) <= 2
	}
	var out []*Term
	switch t.op {
	case OpConst:
	case OpVar:
		out = []*Term{t}
	default:
		for _, a := range t.args {
			vs, _ := varsOf(a)
			for _, v := range vs {
				dup := false
				for _, o := range out {
					if o.name == v.name {
						dup = true
						break
					}
				}
				if !dup {
					out = append(out, v)
				}
			}
			if len(out) > 2 {
				out = out[:3]
				break
			}
		}
	}
	t.vs = out
	t.vsOK = true
	return out, len(out) <= 2
}

// evalWith evaluates t with a single variable bound (all other variables 0).
func evalWith(t *Term, name string, val uint64) uint64 {
	switch t.op {
	case OpConst:
		return t.val
	case OpVar:
		if t.name == name {
			return val & mask(t.w)
		}
		return 0
	}
	as := Assignment{Vars: map[string]uint64{name: val}}
	return as.Eval(t)
}

// evalByte evaluates a term whose only variable is bound to x, without memoisation.
func evalByte(t *Term, x uint64) uint64 {
	switch t.op {
	case OpConst:
		return t.val
	case OpVar:
		return x & mask(t.w)
	case OpAdd, OpSub, OpMul, OpUDiv, OpSDiv, OpURem, OpSRem, OpAnd, OpOr, OpXor, OpShl, OpLShr, OpAShr:
		return evalBin(t.op, t.w, evalByte(t.args[0], x), evalByte(t.args[1], x))
	case OpNot:
		return ^evalByte(t.args[0], x) & mask(t.w)
	case OpNeg:
		return -evalByte(t.args[0], x) & mask(t.w)
	case OpEq:
		if evalByte(t.args[0], x) == evalByte(t.args[1], x) {
			return 1
		}
		return 0
	case OpUlt, OpUle, OpSlt, OpSle:
		if evalCmp(t.op, t.args[0].w, evalByte(t.args[0], x), evalByte(t.args[1], x)) {
			return 1
		}
		return 0
	case OpIte:
		if evalByte(t.args[0], x) == 1 {
			return evalByte(t.args[1], x)
		}
		return evalByte(t.args[2], x)
	case OpZext:
		return evalByte(t.args[0], x)
	case OpSext:
		return uint64(sx(evalByte(t.args[0], x), t.args[0].w)) & mask(t.w)
	case OpExtract:
		return (evalByte(t.args[0], x) >> t.val) & mask(t.w)
	case OpConcat:
		return evalByte(t.args[0], x)<<t.args[1].w | evalByte(t.args[1], x)
	case OpBAnd:
		return evalByte(t.args[0], x) & evalByte(t.args[1], x)
	case OpBOr:
		return evalByte(t.args[0], x) | evalByte(t.args[1], x)
	case OpBNot:
		return evalByte(t.args[0], x) ^ 1
	}
	panic("evalByte: unsupported op")
}

// termSize counts nodes as a tree, up to limit.
func termSize(t *Term, limit int) int {
	n := 1
	for _, a := range t.args {
		n += termSize(a, limit-n)
		if n > limit {
			return n
		}
	}
	return n
}

// byteVec returns the value of t for each value of its single byte variable (cached per node,
// so shared subterms such as a decoded rune are evaluated once).
func byteVec(t *Term) *[256]uint64 {
	if t.vec != nil {
		return t.vec
	}
	var v [256]uint64
	switch t.op {
	case OpConst:
		for x := range v {
			v[x] = t.val
		}
	case OpVar:
		for x := range v {
			v[x] = uint64(x) & mask(t.w)
		}
	case OpAdd, OpSub, OpMul, OpUDiv, OpSDiv, OpURem, OpSRem, OpAnd, OpOr, OpXor, OpShl, OpLShr, OpAShr:
		a, b := byteVec(t.args[0]), byteVec(t.args[1])
		for x := range v {
			v[x] = evalBin(t.op, t.w, a[x], b[x])
		}
	case OpNot:
		a := byteVec(t.args[0])
		for x := range v {
			v[x] = ^a[x] & mask(t.w)
		}
	case OpNeg:
		a := byteVec(t.args[0])
		for x := range v {
			v[x] = -a[x] & mask(t.w)
		}
	case OpEq:
		a, b := byteVec(t.args[0]), byteVec(t.args[1])
		for x := range v {
			if a[x] == b[x] {
				v[x] = 1
			}
		}
	case OpUlt, OpUle, OpSlt, OpSle:
		a, b := byteVec(t.args[0]), byteVec(t.args[1])
		w := t.args[0].w
		for x := range v {
			if evalCmp(t.op, w, a[x], b[x]) {
				v[x] = 1
			}
		}
	case OpIte:
		c, a, b := byteVec(t.args[0]), byteVec(t.args[1]), byteVec(t.args[2])
		for x := range v {
			if c[x] == 1 {
				v[x] = a[x]
			} else {
				v[x] = b[x]
			}
		}
	case OpZext:
		a := byteVec(t.args[0])
		v = *a
	case OpSext:
		a := byteVec(t.args[0])
		for x := range v {
			v[x] = uint64(sx(a[x], t.args[0].w)) & mask(t.w)
		}
	case OpExtract:
		a := byteVec(t.args[0])
		for x := range v {
			v[x] = (a[x] >> t.val) & mask(t.w)
		}
	case OpConcat:
		a, b := byteVec(t.args[0]), byteVec(t.args[1])
		for x := range v {
			v[x] = a[x]<<t.args[1].w | b[x]
		}
	case OpBAnd:
		a, b := byteVec(t.args[0]), byteVec(t.args[1])
		for x := range v {
			v[x] = a[x] & b[x]
		}
	case OpBOr:
		a, b := byteVec(t.args[0]), byteVec(t.args[1])
		for x := range v {
			v[x] = a[x] | b[x]
		}
	case OpBNot:
		a := byteVec(t.args[0])
		for x := range v {
			v[x] = a[x] ^ 1
		}
	default:
		panic("byteVec: unsupported op")
	}
	t.vec = &v
	return t.vec
}

// truthTable of a single-byte condition.
func truthTable(c *Term) *[4]uint64 {
	if c.tt != nil {
		return c.tt
	}
	var tt [4]uint64
	vec := byteVec(c)
	for x := 0; x < 256; x++ {
		if vec[x] == 1 {
			tt[x>>6] |= 1 << (uint(x) & 63)
		}
	}
	c.tt = &tt
	return c.tt
}
