package driver

import (
	sqldriver "database/sql/driver"
)

// C12 — the sql driver returns exactly the library's result as rows.

func init() {
	verifHarnesses["HarnessC12Rows"] = HarnessC12Rows
}

func isA(v string) func(drvRow) bool { return func(r drvRow) bool { return r["a"] == v } }

var drvQueries = []drvQuery{
	{text: `a = "x"`, match: isA("x")},
	{text: `a = "x" ; b`, match: isA("x"), groupBy: []string{"b"}},
	{text: `a = "zz" ; b`, match: isA("zz"), groupBy: []string{"b"}},
	{text: `a = "zz"`, match: isA("zz")},
	{text: `a = "x" | a = "y" ; a, b`, match: func(r drvRow) bool { return r["a"] == "x" || r["a"] == "y" }, groupBy: []string{"a", "b"}},
	{text: `^ a = "x" ; b, a`, match: func(r drvRow) bool { return r["a"] != "x" }, groupBy: []string{"b", "a"}},
	{text: `a = "y" & b = "q" ; b`, match: func(r drvRow) bool { return r["a"] == "y" && r["b"] == "q" }, groupBy: []string{"b"}},
	// bound arguments (repeated and out-of-order placeholders): the rows are those of the query
	// with the literals in place
	{text: `a = $1 | b = $1 ; a`, args: []string{"x"}, match: func(r drvRow) bool { return r["a"] == "x" || has(r, "b", "x") }, groupBy: []string{"a"}},
	{text: `(a = $2 & b = $1) | a = $2 ; b, a`, args: []string{"q", "y"}, match: func(r drvRow) bool { return r["a"] == "y" }, groupBy: []string{"b", "a"}},
	// grouping by a column that is called like the result column
	{text: `a = "x" ; count, b`, match: isA("x"), groupBy: []string{"count", "b"}},
	// every row, grouped by two columns (group order = the library's, value by value)
	{text: `^ a = "zz" ; a, b`, match: func(r drvRow) bool { return r["a"] != "zz" }, groupBy: []string{"a", "b"}},
	// a group-by column listed twice
	{text: `a = "x" ; b, a, b`, match: isA("x"), groupBy: []string{"b", "a", "b"}},
	{text: `zq = "1"`, wantErr: true},
	{text: `a = "x" ; zq`, wantErr: true},
	{text: `a = `, wantErr: true, noParse: true},
	{text: `a = "x" ;`, wantErr: true, noParse: true},
	{text: `a = "x" ; b ;`, wantErr: true, noParse: true},
}

func HarnessC12Rows() {
	rows := drvData()
	path := verifTempPath("c12.updog")
	drvBuild(path, rows)
	opts := []string{"", "?preload=true", "?lrucache=true&lrucachesize=100000", "?preload=true&lrucache=true&lrucachesize=0"}[verifChoice("dsnopts", 4)]
	d := newUpdogDriver()
	c, err := drvOpen(d, "file:"+path+opts)
	verifAssert(err == nil, "C12: opening a valid index through the driver failed")
	if err != nil {
		return
	}
	qi := verifChoice("query", len(drvQueries)+2)
	var q drvQuery
	switch {
	case qi < len(drvQueries):
		q = drvQueries[qi]
	default:
		// a literal with symbolic contents (one arbitrary byte, in the thorough tier two): the
		// solver decides which stored value, if any, it equals; a quote byte makes the text
		// `a = """`-like, which is not a sentence
		v := verifString("lit", 1+verifTier()*verifChoice("litlen", 2))
		bad := false
		for i := 0; i < len(v); i++ {
			if v[i] == '"' {
				bad = true
			}
		}
		q = drvQuery{text: `a = "` + v + `"`, match: func(r drvRow) bool { return r["a"] == v }, wantErr: bad}
		if qi == len(drvQueries)+1 {
			q.text += " ; b"
			q.groupBy = []string{"b"}
		}
		if bad && len(v) == 2 && v[0] == '"' && v[1] == '"' {
			// `a = """"` is the one-quote value
			q.wantErr = false
			q.match = func(r drvRow) bool { return r["a"] == `"` }
		}
	}
	var named []sqldriver.NamedValue
	var vals []sqldriver.Value
	for i, a := range q.args {
		named = append(named, sqldriver.NamedValue{Ordinal: i + 1, Value: a})
		vals = append(vals, a)
	}
	r, err := c.QueryContext(drvCtx, q.text, named)
	if q.wantErr {
		verifAssert(err != nil, "C12: a query the library rejects must be rejected with an error")
	} else {
		verifAssert(err == nil, "C12: a valid query failed")
		if err == nil {
			drvCheckRows("C12", q, rows, r)
		}
	}
	// the prepared path returns the same rows
	if !q.wantErr {
		st, err := c.Prepare(q.text)
		verifAssert(err == nil, "C12: Prepare failed")
		if err == nil {
			r2, err := st.Query(vals)
			verifAssert(err == nil, "C12: a prepared query failed")
			// the statement is executed again, with other arguments, before the first result
			// set is read: every result set keeps the rows of its own execution
			var r3 sqldriver.Rows
			var q3 drvQuery
			if err == nil && len(q.args) > 0 {
				var vals3 []sqldriver.Value
				var args3 []string
				for range q.args {
					vals3 = append(vals3, "y")
					args3 = append(args3, "y")
				}
				q3 = drvQuery{text: q.text, groupBy: q.groupBy, args: args3, match: c13gRebind(q.text)}
				var err3 error
				r3, err3 = st.Query(vals3)
				verifAssert(err3 == nil, "C12: a prepared query failed when executed again")
				if err3 != nil {
					r3 = nil
				}
			}
			if err == nil {
				drvCheckRows("C12 prepared", q, rows, r2)
			}
			if r3 != nil && q3.match != nil {
				drvCheckRows("C12 prepared, executed again before the first result set was read", q3, rows, r3)
			}
		}
	}
	verifAssert(c.Close() == nil, "C12: Close failed")
	verifReach("end")
}
