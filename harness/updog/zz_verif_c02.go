package updog

import "sync"

// C02 — group-by = SQL GROUP BY with COUNT(*) > 0 in sorted order.
// C08 — executing a query does not change the Query.

func init() {
	verifHarnesses["HarnessC02GroupBy"] = HarnessC02GroupBy
	verifHarnesses["HarnessC08Reuse"] = HarnessC08Reuse
	verifHarnesses["HarnessC08Copies"] = HarnessC08Copies
}

// schema: a in {a0,a1}, b in {b0,b1,b2}, r in {r0}; r=r0 selects an arbitrary row set.
// Values are added to the writer in non-sorted order so that a missing sort is visible
// even in the engine's deterministic (insertion-order) map iteration.
func verifC02Data(name string) *verifData { return verifC02DataV(name, false) }

func verifC02DataV(name string, specialValues bool) *verifData {
	// group-by never looks at the row count: 64 rows, every row set arbitrary
	// the values of the first column: plain ones, or a value and its extension by a control
	// byte / a high byte (orderings that compare joined or escaped keys instead of the values
	// themselves get these wrong)
	avals := []string{"a1", "a0"}
	if specialValues {
		avals = [][]string{{"a1", "a0"}, {"a\t", "a"}, {"a", "a\xff"}, {"7", "07"}}[verifChoice("a-values", 4)] // last: two spellings of one number (byte-wise order, not numeric)
	}
	d := verifNewDataN(name, []string{"a", "b", "r"}, [][]string{avals, {"b1", "b2", "b0"}, {"r0"}}, 64)
	d.build()
	return d
}

// sortedVals returns the values of a column in byte-wise ascending order.
func (d *verifData) sortedVals(col string) []string {
	for ci, c := range d.cols {
		if c == col {
			out := append([]string(nil), d.vals[ci]...)
			for i := 1; i < len(out); i++ {
				for j := i; j > 0 && out[j] < out[j-1]; j-- {
					out[j], out[j-1] = out[j-1], out[j]
				}
			}
			return out
		}
	}
	return nil
}

type verifTuple struct {
	fields []ResultField
	rows   uint64
}

// verifExpectedGroups enumerates the cartesian product of the listed columns' values in
// lexicographic order together with the rows of each tuple (reference semantics).
func verifExpectedGroups(d *verifData, list []string, rows uint64) []verifTuple {
	cur := []verifTuple{{rows: rows}}
	for _, col := range list {
		var next []verifTuple
		for _, t := range cur {
			for _, v := range d.sortedVals(col) {
				s, _ := d.set(col, v)
				f := make([]ResultField, len(t.fields), len(t.fields)+1)
				copy(f, t.fields)
				f = append(f, ResultField{Column: col, Value: v})
				next = append(next, verifTuple{fields: f, rows: t.rows & s})
			}
		}
		cur = next
	}
	return cur
}

// verifCheckGroups compares a result with the reference: exactly the non-empty tuples, in
// order, each with its columns in list order and its exact count.
func verifCheckGroups(d *verifData, list []string, rows uint64, res *Result, tag string) {
	verifAssert(res.Count == verifCard(rows), tag+": total count differs from the number of selected rows")
	if len(list) == 0 {
		verifAssert(len(res.Groups) == 0, tag+": an empty group-by list must yield no groups")
		return
	}
	gi := 0
	for _, t := range verifExpectedGroups(d, list, rows) {
		if t.rows == 0 {
			continue
		}
		if gi >= len(res.Groups) {
			verifAssert(false, tag+": a value tuple with matching rows is missing from the groups")
			return
		}
		g := res.Groups[gi]
		gi++
		if len(g.Fields) != len(list) {
			verifAssert(false, tag+": a group does not name one value per listed column")
			return
		}
		for i := range list {
			verifAssert(g.Fields[i].Column == list[i], tag+": group names its columns in the wrong order")
			verifAssert(g.Fields[i].Value == t.fields[i].Value, tag+": unexpected group, wrong value or wrong order")
		}
		verifAssert(g.Count == verifCard(t.rows), tag+": group count differs from the number of matching rows")
	}
	verifAssert(gi == len(res.Groups), tag+": surplus groups (duplicate, empty or unexpected tuples)")
}

func verifGenList(maxLen int) (list []string, unknown bool) {
	alphabet := []string{"a", "b", "q"}
	n := verifChoice("listlen", maxLen+1)
	for i := 0; i < n; i++ {
		c := alphabet[verifChoice("col", len(alphabet))]
		if c == "q" {
			unknown = true
		}
		list = append(list, c)
	}
	return list, unknown
}

func HarnessC02GroupBy() {
	maxLen := 4
	if verifTier() > 0 {
		maxLen = 5
	}
	list, unknown := verifGenList(maxLen)
	// value sets with prefix pairs for the lists of two columns (thorough: two or three)
	d := verifC02DataV("c02.updog", !unknown && len(list) >= 2 && len(list) <= 2+verifTier())
	rows, _ := d.set("r", "r0")
	var cache Cache
	if len(list) <= 1 && verifBool("cache") {
		cache = NewLRUCache(^uint64(0))
	}
	idx := d.open(verifBool("preload"), cache)
	res, err := idx.Execute(&Query{Expr: &ExprEqual{Column: "r", Value: "r0"}, GroupBy: list})
	if unknown {
		verifAssert(err != nil && res == nil, "C02: a group-by list naming a column that occurs in no row must yield an error and no result")
	} else {
		verifAssert(err == nil, "C02: a well-formed grouped query returned an error")
		if err == nil {
			verifCheckGroups(d, list, rows, res, "C02")
		}
		// the same answer again on the same open index (grouping must not consume or alter
		// the bitmaps it reads: preloaded data, cached results)
		if len(list) <= 2 {
			res2, err2 := idx.Execute(&Query{Expr: &ExprEqual{Column: "r", Value: "r0"}, GroupBy: list})
			verifAssert(err2 == nil, "C02: a well-formed grouped query returned an error when repeated")
			if err2 == nil {
				verifCheckGroups(d, list, rows, res2, "C02 (repeated on the same index)")
			}
		}
	}
	idx.Close()
	verifReach("end")
}

// HarnessC08Reuse executes one Query value several times, on one index (symbolic data) and
// in between on a second index whose grouped columns hold different values (concrete data;
// either with other numbers of distinct values per column or with the same numbers), and
// compares each result with the reference (= what a freshly constructed equal query
// returns, by C02). The caller-visible fields of the Query must stay as given: the group-by
// list element by element, the expression tree node by node (operand slices with repeated
// operands included) and in its textual form.
func HarnessC08Reuse() {
	d1 := verifNewDataN("c08a.updog", []string{"a", "b", "r"}, [][]string{{"a1", "a0"}, {"b0"}, {"r0"}}, 64)
	d1.build()
	var d2 *verifData
	if verifBool("same-value-counts") {
		d2 = &verifData{path: verifTempPath("c08b.updog"), n: 6, cols: []string{"a", "b", "r"},
			vals: [][]string{{"a7", "a6"}, {"b8"}, {"r0"}},
			sets: [][]uint64{{0x05, 0x32}, {0x0f}, {0x3e}}}
	} else {
		d2 = &verifData{path: verifTempPath("c08b.updog"), n: 6, cols: []string{"a", "b", "r"},
			vals: [][]string{{"a7"}, {"b8", "b7"}, {"r0"}},
			sets: [][]uint64{{0x0f}, {0x05, 0x32}, {0x3e}}}
	}
	d2.build()
	alphabet := []string{"a", "b"}
	var list []string
	n := verifChoice("listlen", 3+verifTier())
	for i := 0; i < n; i++ {
		list = append(list, alphabet[verifChoice("col", len(alphabet))])
	}
	given := append([]string(nil), list...)
	x := &ExprEqual{Column: "r", Value: "r0"}
	y := &ExprEqual{Column: "a", Value: "a0"} // no such value in the second index
	var e Expression = x
	var operands []Expression // the operand slice of the root, if it has one
	shape := verifChoice("shape", 5)
	switch shape {
	case 1:
		o := &ExprOr{Exprs: []Expression{x, x, y}}
		e, operands = o, o.Exprs
	case 2:
		a := &ExprAnd{Exprs: []Expression{x, x, y}}
		e, operands = a, a.Exprs
	case 3: // a root with a single operand stands for that operand, but stays the root the caller set
		a := &ExprAnd{Exprs: []Expression{x}}
		e, operands = a, a.Exprs
	case 4:
		o := &ExprOr{Exprs: []Expression{&ExprAnd{Exprs: []Expression{x}}}}
		e, operands = o, o.Exprs
	}
	givenOperands := append([]Expression(nil), operands...)
	givenText := e.String()
	rowsOf := func(d *verifData) uint64 {
		rx, _ := d.set("r", "r0")
		ry, _ := d.set("a", "a0")
		switch shape {
		case 1:
			return rx | ry
		case 2:
			return rx & ry
		}
		return rx // shapes 0, 3, 4: x alone
	}
	q := &Query{Expr: e, GroupBy: list}
	// a third index lacks column b (and r): executing the query there fails, possibly after
	// some group-by columns were already resolved
	d3 := &verifData{path: verifTempPath("c08c.updog"), n: 2, cols: []string{"a"}, vals: [][]string{{"a5"}}, sets: [][]uint64{{0x3}}}
	d3.build()
	// the first index may have a cache that keeps everything: a reused (and later changed)
	// Query must not be answered from entries made for its former self
	var cache1 Cache
	if verifBool("cache") {
		cache1 = NewLRUCache(^uint64(0))
	}
	idx1 := d1.open(verifBool("preload"), cache1)
	idx2 := d2.open(false, nil)
	idx3 := d3.open(false, nil)
	r1 := rowsOf(d1)
	r2 := rowsOf(d2)
	// an execution must not leave anything running behind that touches the Query later
	// (the race analysis sees accesses of goroutines the executions start)
	verifLockset(true)
	for _, which := range []int{1, 1, 2, 3, 1, 2} {
		var res *Result
		var err error
		switch which {
		case 1:
			res, err = idx1.Execute(q)
		case 2:
			res, err = idx2.Execute(q)
		default:
			res, err = idx3.Execute(q)
			verifAssert(err != nil && res == nil, "C08: a query on an index lacking its columns must fail")
		}
		if which != 3 {
			verifAssert(err == nil, "C08: repeated execution returned an error")
			if err != nil {
				return
			}
			if which == 1 {
				verifCheckGroups(d1, given, r1, res, "C08: repeated execution differs from a fresh query")
			} else {
				verifCheckGroups(d2, given, r2, res, "C08: repeated execution differs from a fresh query")
			}
		}
		verifAssert(q.Expr == e, "C08: Execute changed Query.Expr")
		verifAssert(len(q.GroupBy) == len(given), "C08: Execute changed the length of Query.GroupBy")
		for i := range given {
			verifAssert(q.GroupBy[i] == given[i], "C08: Execute changed Query.GroupBy")
		}
		var now []Expression
		switch o := q.Expr.(type) {
		case *ExprOr:
			now = o.Exprs
		case *ExprAnd:
			now = o.Exprs
		}
		verifAssert(len(now) == len(givenOperands), "C08: Execute changed the operands of the query's expression")
		for i := range givenOperands {
			if i < len(now) {
				verifAssert(now[i] == givenOperands[i], "C08: Execute changed the operands of the query's expression")
			}
		}
		verifAssert(x.Column == "r" && x.Value == "r0" && y.Column == "a" && y.Value == "a0", "C08: Execute changed a comparison of the query's expression")
		verifAssert(q.Expr.String() == givenText, "C08: Execute changed the query's expression (textual form differs)")
	}
	verifLockset(false)
	verifRaceFree("C08: an execution left a goroutine behind that accesses the Query while a later execution runs")
	// the caller changes a comparison of the same Query value and executes it again: the
	// result is that of a freshly constructed query equal to the changed one
	y.Value = "a1"
	if shape == 0 || shape >= 3 {
		x.Column, x.Value = "a", "a1"
	}
	changed := func(d *verifData) uint64 {
		rx, _ := d.set("r", "r0")
		ry, _ := d.set("a", "a1")
		switch shape {
		case 1:
			return rx | ry
		case 2:
			return rx & ry
		}
		return ry
	}
	for _, which := range []int{1, 2, 1} {
		idx, d := idx1, d1
		if which == 2 {
			idx, d = idx2, d2
		}
		res, err := idx.Execute(q)
		verifAssert(err == nil, "C08: executing a changed Query value returned an error")
		if err != nil {
			return
		}
		verifCheckGroups(d, given, changed(d), res, "C08: a Query value changed by the caller and executed again differs from a fresh equal query")
	}
	// the caller empties the group-by list of the same Query value: no groups any more
	if len(given) > 0 {
		q.GroupBy = nil
		res, err := idx1.Execute(q)
		verifAssert(err == nil && res != nil && len(res.Groups) == 0, "C08: a Query value whose group-by list the caller emptied still returns the groups of an earlier execution")
		q.GroupBy = list
	}
	// the caller takes an operand away in place (the tree becomes incomplete under the same
	// root): like a freshly constructed equal query, the execution fails with an error
	if len(operands) == 3 {
		operands[2] = nil
		res, err := idx1.Execute(q)
		verifAssert(err != nil && res == nil, "C08: a Query value made incomplete by the caller after an execution was executed instead of being rejected")
		derived := *q
		res, err = idx2.Execute(&derived)
		verifAssert(err != nil && res == nil, "C08: a copy of a Query value made incomplete by the caller was executed instead of being rejected")
	}
	idx1.Close()
	idx2.Close()
	idx3.Close()
	verifReach("end")
}

// HarnessC08Copies: a Query value that has been executed is copied (by value), and the
// original and the copy — two Query values as far as the caller can tell — are executed at
// the same time by two goroutines on two indexes whose grouped column holds different values.
// No data race between the two executions, and each returns what a fresh query returns.
func HarnessC08Copies() {
	d1 := verifNewDataN("c08d1.updog", []string{"a", "r"}, [][]string{{"a1", "a0"}, {"r0"}}, 64)
	d1.build()
	d2 := &verifData{path: verifTempPath("c08d2.updog"), n: 6, cols: []string{"a", "r"},
		vals: [][]string{{"a7", "a6"}, {"r0"}}, sets: [][]uint64{{0x05, 0x32}, {0x3e}}}
	d2.build()
	idx1 := d1.open(verifBool("preload"), nil)
	idx2 := d2.open(false, nil)
	list := []string{"a"}
	if verifBool("two-columns") {
		list = []string{"a", "r"}
	}
	q := &Query{Expr: &ExprEqual{Column: "r", Value: "r0"}, GroupBy: list}
	if verifBool("executed-before-copying") {
		if _, err := idx1.Execute(q); err != nil {
			panic(err)
		}
	}
	derived := *q // a second Query value
	r1, _ := d1.set("r", "r0")
	r2, _ := d2.set("r", "r0")
	var res1, res2 *Result
	var err1, err2 error
	var wg sync.WaitGroup
	verifPreemptions(1 + verifTier())
	verifSchedule(true)
	verifLockset(true)
	wg.Add(2)
	go func() {
		defer wg.Done()
		res1, err1 = idx1.Execute(q)
	}()
	go func() {
		defer wg.Done()
		res2, err2 = idx2.Execute(&derived)
	}()
	wg.Wait()
	verifLockset(false)
	verifSchedule(false)
	verifRaceFree("C08: two Query values (one a copy of the other) executed at the same time share state")
	verifAssert(err1 == nil && err2 == nil, "C08: executing a Query value and a copy of it at the same time returned an error")
	if err1 == nil && err2 == nil {
		verifCheckGroups(d1, list, r1, res1, "C08: a Query value executed while a copy of it runs elsewhere differs from a fresh query")
		verifCheckGroups(d2, list, r2, res2, "C08: a copy of a Query value executed while the original runs elsewhere differs from a fresh query")
	}
	idx1.Close()
	idx2.Close()
	verifReach("end")
}
