package updog

import "github.com/RoaringBitmap/roaring"

// C03 — result caches are transparent and evaluation is side-effect free.

func init() {
	verifHarnesses["HarnessC03Keys"] = HarnessC03Keys
	verifHarnesses["HarnessC03Hist"] = HarnessC03Hist
	verifHarnesses["HarnessC03Names"] = HarnessC03Names
}

// expression templates over three leaves of three different columns (independent row sets)
type verifT struct {
	kind int // 0 leaf, 1 not, 2 and, 3 or
	leaf int
	kids []*verifT
}

var verifC03Leaves = []verifLeaf{{"a", "a0"}, {"b", "b0"}, {"c", "c0"}}

func (t *verifT) expr() Expression {
	switch t.kind {
	case 0:
		l := verifC03Leaves[t.leaf]
		return &ExprEqual{Column: l.col, Value: l.val}
	case 1:
		return &ExprNot{Expr: t.kids[0].expr()}
	}
	var es []Expression
	for _, k := range t.kids {
		es = append(es, k.expr())
	}
	if t.kind == 2 {
		return &ExprAnd{Exprs: es}
	}
	return &ExprOr{Exprs: es}
}

func (t *verifT) den(sets []uint64, mask uint64) uint64 {
	switch t.kind {
	case 0:
		return sets[t.leaf]
	case 1:
		return ^t.kids[0].den(sets, mask) & mask
	}
	r := t.kids[0].den(sets, mask)
	for _, k := range t.kids[1:] {
		if t.kind == 2 {
			r &= k.den(sets, mask)
		} else {
			r |= k.den(sets, mask)
		}
	}
	return r
}

func (t *verifT) String() string {
	switch t.kind {
	case 0:
		return string(rune('a' + t.leaf))
	case 1:
		return "^" + t.kids[0].String()
	}
	op := "&"
	if t.kind == 3 {
		op = "|"
	}
	s := "("
	for i, k := range t.kids {
		if i > 0 {
			s += op
		}
		s += k.String()
	}
	if len(t.kids) == 1 {
		s += op
	}
	return s + ")"
}

// verifTemplates lists every template of depth <= depth with AND/OR arity 1..arity.
func verifTemplates(depth, arity int) []*verifT {
	var lv []*verifT
	for i := range verifC03Leaves {
		lv = append(lv, &verifT{kind: 0, leaf: i})
	}
	all := lv
	prev := lv
	for d := 1; d <= depth; d++ {
		var cur []*verifT
		cur = append(cur, lv...)
		for _, k := range prev {
			cur = append(cur, &verifT{kind: 1, kids: []*verifT{k}})
		}
		for kind := 2; kind <= 3; kind++ {
			// arity 1
			for _, k := range prev {
				cur = append(cur, &verifT{kind: kind, kids: []*verifT{k}})
			}
			if arity >= 2 {
				for _, k1 := range prev {
					for _, k2 := range prev {
						cur = append(cur, &verifT{kind: kind, kids: []*verifT{k1, k2}})
					}
				}
			}
			if arity >= 3 && d == 1 {
				for _, k1 := range prev {
					for _, k2 := range prev {
						for _, k3 := range prev {
							cur = append(cur, &verifT{kind: kind, kids: []*verifT{k1, k2, k3}})
						}
					}
				}
			}
		}
		prev = cur
		all = cur
	}
	return all
}

func verifC03Data(name string) *verifData {
	d := verifNewData(name, []string{"a", "b", "c"}, [][]string{{"a0"}, {"b0"}, {"c0"}})
	d.build()
	return d
}

func (d *verifData) leafSets() []uint64 {
	return []uint64{d.sets[0][0], d.sets[1][0], d.sets[2][0]}
}

// verifRunHistory executes the templates in order on one index and checks every result
// against the reference denotation; afterwards every leaf is probed again (a bitmap altered
// by an earlier evaluation would show up there).
func verifRunHistory(d *verifData, idx *Index, hist []*verifT, tag string) {
	sets := d.leafSets()
	mask := verifMask(d.n)
	for hi, t := range hist {
		q := &Query{Expr: t.expr()}
		gcol := -1
		if hi%2 == 0 {
			// grouping reads the result and the stored bitmaps too (and may use the cache itself)
			gcol = []int{0, 2}[verifChoice("groupcol", 2)]
			q.GroupBy = []string{d.cols[gcol]}
		}
		res, err := idx.Execute(q)
		verifAssert(err == nil, tag+": query returned an error")
		if err != nil {
			return
		}
		den := t.den(sets, mask)
		verifAssert(res.Count == verifCard(den), tag+": result differs from what a fresh cache-less index returns for this query")
		if gcol >= 0 {
			// every column holds one value: one group with the rows carrying it, or none
			in := den & sets[gcol]
			if in == 0 {
				verifAssert(len(res.Groups) == 0, tag+": a group without rows was returned")
			} else {
				ok := len(res.Groups) == 1 && len(res.Groups[0].Fields) == 1 && res.Groups[0].Fields[0].Column == d.cols[gcol] &&
					res.Groups[0].Fields[0].Value == d.vals[gcol][0] && res.Groups[0].Count == verifCard(in)
				verifAssert(ok, tag+": groups differ from what a fresh cache-less index returns for this query")
			}
		}
	}
	for i := range verifC03Leaves {
		t := &verifT{kind: 0, leaf: i}
		res, err := idx.Execute(&Query{Expr: t.expr()})
		verifAssert(err == nil && res.Count == verifCard(sets[i]), tag+": a stored bitmap was altered by evaluating earlier queries")
	}
}

// HarnessC03Keys: for every pair of templates whose cache keys coincide for EVERY value of
// the leaf hashes (solver: key1 != key2 unsat, leaf hashes abstract) and whose meanings
// differ on some dataset (solver), executing one after the other on an index with an ample
// LRU cache must still return each one's own result. Candidate pairs are found by grouping
// on the concrete keys: a pair identical for all leaf hashes is identical for the real ones.
func HarnessC03Keys() {
	d := verifC03Data("c03k.updog")
	sets := d.leafSets()
	mask := verifMask(d.n)
	ts := verifTemplates(2, 2)
	if verifTier() > 0 {
		ts = append(ts, verifTemplates(1, 3)...)
	}
	// concrete fingerprints of the meaning on three fixed datasets of 64 rows
	fpSets := [][]uint64{
		{0x0123456789abcdef, 0xfedcba9876543210, 0x0f0f0f0f33335555},
		{0xdeadbeefcafef00d, 0x1111111100000000, 0xaaaaaaaa55555555},
		{0, 0xffffffffffffffff, 0x8000000000000001},
	}
	groups := map[uint64][]int{}
	var order []uint64
	for i, t := range ts {
		k := t.expr().cacheKey()
		if _, ok := groups[k]; !ok {
			order = append(order, k)
		}
		groups[k] = append(groups[k], i)
	}
	verifReach("templates-keyed")
	for _, k := range order {
		g := groups[k]
		if len(g) < 2 {
			continue
		}
		first := ts[g[0]]
		for _, j := range g[1:] {
			other := ts[j]
			differ := false
			for _, fs := range fpSets {
				if first.den(fs, ^uint64(0)) != other.den(fs, ^uint64(0)) {
					differ = true
				}
			}
			if !differ && verifValid(first.den(sets, mask) == other.den(sets, mask)) {
				continue // same meaning on every dataset: sharing a key is harmless
			}
			// Different meaning, identical key under the real hash of these strings. Whether the
			// keys coincide for every leaf hash (solver, abstract hashes) only classifies the
			// defect; either way the pair is executed: a chance 64-bit collision among these
			// 1893 templates has probability ~1e-13, a collision that shows up here is structural.
			verifAbstractHash(true)
			if verifValid(first.expr().cacheKey() == other.expr().cacheKey()) {
				verifNote("cache keys of two templates with different meaning coincide for every leaf hash")
			} else {
				verifNote("cache keys of two templates with different meaning coincide for the real leaf hashes (not for all)")
			}
			verifAbstractHash(false)
			// one path per candidate pair
			if !verifBool("check-this-pair") {
				continue
			}
			idx := d.open(false, &verifKeepCache{})
			verifRunHistory(d, idx, []*verifT{first, other}, "C03 keys "+first.String()+" then "+other.String())
			idx.Close()
			idx = d.open(false, &verifKeepCache{})
			verifRunHistory(d, idx, []*verifT{other, first}, "C03 keys "+other.String()+" then "+first.String())
			idx.Close()
			verifReach("end")
			return
		}
	}
	verifReach("end")
}

// verifKeepCache is a Cache that never evicts: Get returns the bitmap last Put under the key.
type verifKeepCache struct {
	keys []uint64
	bms  []*roaring.Bitmap
}

func (c *verifKeepCache) Get(key uint64) (*roaring.Bitmap, bool) {
	for i, k := range c.keys {
		if k == key {
			return c.bms[i], true
		}
	}
	return nil, false
}

func (c *verifKeepCache) Put(key uint64, bm *roaring.Bitmap) {
	for i, k := range c.keys {
		if k == key {
			c.bms[i] = bm
			return
		}
	}
	c.keys = append(c.keys, key)
	c.bms = append(c.bms, bm)
}

// HarnessC03Hist: histories of 2 (quick) / 3 queries from a curated template list on one
// index with {no cache, keep-all cache, LRU capacity 0, LRU unbounded} x {on-demand, preloaded}.
func HarnessC03Hist() {
	a, b, c := &verifT{leaf: 0}, &verifT{leaf: 1}, &verifT{leaf: 2}
	not := func(x *verifT) *verifT { return &verifT{kind: 1, kids: []*verifT{x}} }
	and := func(xs ...*verifT) *verifT { return &verifT{kind: 2, kids: xs} }
	or := func(xs ...*verifT) *verifT { return &verifT{kind: 3, kids: xs} }
	list := []*verifT{
		a, not(a), not(not(a)), and(a, b), and(b, a), or(a, b), and(a, a), and(b, b), or(a, a),
		and(or(a, c), or(b, c)), and(not(a), not(b)), not(or(a, b)), and(a), or(a), and(a, b, c), and(and(a, b), c),
		or(and(a, b), c), and(or(a, b), c), or(a, b, c), or(c, a),
	}
	d := verifC03Data("c03h.updog")
	// caches without data-dependent eviction: none, never-evicting, LRU that evicts at once,
	// LRU that never evicts. (Eviction order itself is C07's subject; which Gets hit is what
	// matters here, and "always" / "never" are the two extremes.)
	cacheKind := verifChoice("cache", 4)
	n := 2
	if verifTier() > 0 && (cacheKind == 1 || cacheKind == 3) {
		n = 3 // a third query only matters where earlier ones can have left something behind
	}
	var hist []*verifT
	for i := 0; i < n; i++ {
		hist = append(hist, list[verifChoice("tmpl", len(list))])
	}
	var cache Cache
	switch cacheKind {
	case 1:
		cache = &verifKeepCache{}
	case 2:
		cache = NewLRUCache(0)
	case 3:
		cache = NewLRUCache(^uint64(0))
	}
	idx := d.open(verifBool("preload"), cache)
	verifRunHistory(d, idx, hist, "C03 history")
	idx.Close()
	verifReach("end")
}

// HarnessC03Names: column names and values that mimic the textual form of expressions
// (Expression.String() prints "(EQUAL column \"value\")" with the column unquoted): a cache
// key derived from any rendering in which names are not delimited collides for these. Two
// queries on one caching index, each compared with its own denotation.
func HarnessC03Names() {
	odd := `a "a0") (EQUAL b` // AND(odd="b0") prints like AND(a="a0", b="b0")
	d := verifNewData("c03n.updog", []string{"a", "b", odd}, [][]string{{"a0", "b\x00c"}, {"b0"}, {"b0"}})
	d.build()
	sa, sb, so := d.sets[0][0], d.sets[1][0], d.sets[2][0]
	mask := verifMask(d.n)
	eq := func(c, v string) Expression { return &ExprEqual{Column: c, Value: v} }
	type nq struct {
		e       Expression
		den     uint64
		wantErr bool // names a column that occurs in no row: an error, every time
	}
	qs := []nq{
		{&ExprAnd{Exprs: []Expression{eq("a", "a0"), eq("b", "b0")}}, sa & sb, false},
		{&ExprAnd{Exprs: []Expression{eq(odd, "b0")}}, so, false},
		{&ExprOr{Exprs: []Expression{eq("a", "a0"), eq("b", "b0")}}, sa | sb, false},
		{&ExprOr{Exprs: []Expression{eq(odd, "b0")}}, so, false},
		{&ExprNot{Expr: &ExprAnd{Exprs: []Expression{eq("a", "a0"), eq("b", "b0")}}}, ^(sa & sb) & mask, false},
		{&ExprNot{Expr: &ExprAnd{Exprs: []Expression{eq(odd, "b0")}}}, ^so & mask, false},
		// a failing evaluation must not leave anything in the cache that a later evaluation of
		// the same (or an enclosing) expression is answered from
		{&ExprOr{Exprs: []Expression{eq("a", "a0"), eq("nosuch", "x")}}, 0, true},
		{&ExprAnd{Exprs: []Expression{eq("a", "a0"), eq("nosuch", "x")}}, 0, true},
		{&ExprNot{Expr: &ExprOr{Exprs: []Expression{eq("b", "b0"), eq("nosuch", "x")}}}, 0, true},
		// a stored value containing the separator byte, and a comparison against a column that
		// does not exist whose name and value concatenate to the same bytes: the second one is an
		// error whatever the cache holds
		{eq("a", "b\x00c"), d.sets[0][1], false},
		{eq("a\x00b", "c"), 0, true},
		{&ExprOr{Exprs: []Expression{eq("a\x00b", "c"), eq("a", "a0")}}, 0, true},
	}
	var cache Cache = NewLRUCache(^uint64(0))
	if verifBool("keep-cache") {
		cache = &verifKeepCache{}
	}
	idx := d.open(verifBool("preload"), cache)
	for i := 0; i < 2; i++ {
		q := qs[verifChoice("query", len(qs))]
		res, err := idx.Execute(&Query{Expr: q.e})
		if q.wantErr {
			verifAssert(err != nil && res == nil, "C03: a query naming an unknown column was answered (from the cache) instead of failing like on a cache-less index")
			continue
		}
		verifAssert(err == nil, "C03 names: query returned an error")
		if err != nil {
			return
		}
		verifAssert(res.Count == verifCard(q.den), "C03 names: with column names that mimic expression syntax, a query on a caching index returned the result of another expression")
	}
	idx.Close()
	verifReach("end")
}
