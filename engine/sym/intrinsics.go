package sym

import (
	"fmt"
	"go/token"
	"go/types"
	"math/bits"
	"os"
	"strings"
	"time"
	"unicode"

	"github.com/cespare/xxhash/v2"
	"golang.org/x/tools/go/ssa"
)

func (p *Program) installIntrinsics() {
	p.intrinsics = map[string]intrinsicFn{}
	p.verifIntrinsics = map[string]intrinsicFn{}
	in := p.intrinsics

	// ---- sync
	in["(*sync.Mutex).Lock"] = func(fr *frame, a []Value) Value {
		fr.m.lockMutex(mutexCell(fr, a[0]), true, "Mutex.Lock")
		return nil
	}
	in["(*sync.Mutex).Unlock"] = func(fr *frame, a []Value) Value {
		fr.m.unlockMutex(fr, mutexCell(fr, a[0]), true)
		return nil
	}
	in["(*sync.RWMutex).Lock"] = func(fr *frame, a []Value) Value {
		fr.m.lockMutex(mutexCell(fr, a[0]), true, "RWMutex.Lock")
		return nil
	}
	in["(*sync.RWMutex).Unlock"] = func(fr *frame, a []Value) Value {
		fr.m.unlockMutex(fr, mutexCell(fr, a[0]), true)
		return nil
	}
	in["(*sync.RWMutex).RLock"] = func(fr *frame, a []Value) Value {
		fr.m.lockMutex(mutexCell(fr, a[0]), false, "RWMutex.RLock")
		return nil
	}
	in["(*sync.RWMutex).RUnlock"] = func(fr *frame, a []Value) Value {
		fr.m.unlockMutex(fr, mutexCell(fr, a[0]), false)
		return nil
	}
	in["(*sync.WaitGroup).Add"] = func(fr *frame, a []Value) Value {
		m := fr.m
		c := m.wgCounter(a[0].(*Value))
		*c += m.concreteInt(a[1], "WaitGroup.Add delta")
		if *c < 0 {
			panic(targetPanic{v: Iface{t: m.P.runtimeErrorString, v: MkStr("sync: negative WaitGroup counter")}, pos: "sync"})
		}
		if *c == 0 {
			m.notifyAll()
		}
		return nil
	}
	in["(*sync.WaitGroup).Done"] = func(fr *frame, a []Value) Value {
		m := fr.m
		c := m.wgCounter(a[0].(*Value))
		m.hbRelease(c)
		*c--
		if *c < 0 {
			panic(targetPanic{v: Iface{t: m.P.runtimeErrorString, v: MkStr("sync: negative WaitGroup counter")}, pos: "sync"})
		}
		if *c == 0 {
			m.notifyAll()
		}
		m.schedPoint()
		return nil
	}
	in["(*sync.WaitGroup).Wait"] = func(fr *frame, a []Value) Value {
		m := fr.m
		c := m.wgCounter(a[0].(*Value))
		m.schedPoint()
		m.waitUntil(func() bool { return *c == 0 }, "WaitGroup.Wait")
		m.hbAcquire(c)
		return nil
	}

	// sync.Pool: Get may return any item Put before; the model returns the most recently Put
	// one (the reuse that is hardest on the caller), else calls New.
	in["(*sync.Pool).Put"] = func(fr *frame, a []Value) Value {
		m := fr.m
		p := a[0].(*Value)
		if m.pools == nil {
			m.pools = map[*Value][]Value{}
		}
		if it, ok := a[1].(Iface); ok && it.t == nil {
			return nil
		}
		m.pools[p] = append(m.pools[p], a[1])
		return nil
	}
	in["(*sync.Pool).Get"] = func(fr *frame, a []Value) Value {
		m := fr.m
		p := a[0].(*Value)
		if items := m.pools[p]; len(items) > 0 {
			v := items[len(items)-1]
			m.pools[p] = items[:len(items)-1]
			return v
		}
		pt := m.P.namedType("sync", "Pool")
		newFn := (*p).(Struct)[fieldIndex(pt, "New")]
		if isNilValue(newFn) {
			return Iface{}
		}
		return m.call(fr, token.NoPos, newFn, nil)
	}

	// sync.Map as a plain map guarded by the engine's one-goroutine-at-a-time execution
	// (every operation is a synchronisation point and a release/acquire edge)
	smap := func(fr *frame, recv Value) *Map {
		m := fr.m
		p := recv.(*Value)
		if m.syncMaps == nil {
			m.syncMaps = map[*Value]*Map{}
		}
		mp := m.syncMaps[p]
		if mp == nil {
			mp = &Map{}
			m.syncMaps[p] = mp
		}
		m.schedPoint()
		m.hbAcquire(mp)
		m.hbRelease(mp)
		return mp
	}
	in["(*sync.Map).Load"] = func(fr *frame, a []Value) Value {
		mp := smap(fr, a[0])
		if i := fr.m.mapFind(mp, a[1]); i >= 0 {
			return Tuple{mp.vals[i], trueT}
		}
		return Tuple{Iface{}, falseT}
	}
	in["(*sync.Map).Store"] = func(fr *frame, a []Value) Value {
		fr.m.mapInsert(smap(fr, a[0]), a[1], a[2])
		return nil
	}
	in["(*sync.Map).LoadOrStore"] = func(fr *frame, a []Value) Value {
		mp := smap(fr, a[0])
		if i := fr.m.mapFind(mp, a[1]); i >= 0 {
			return Tuple{mp.vals[i], trueT}
		}
		fr.m.mapInsert(mp, a[1], a[2])
		return Tuple{a[2], falseT}
	}
	in["(*sync.Map).LoadAndDelete"] = func(fr *frame, a []Value) Value {
		mp := smap(fr, a[0])
		if i := fr.m.mapFind(mp, a[1]); i >= 0 {
			v := mp.vals[i]
			fr.m.mapDelete(mp, a[1])
			return Tuple{v, trueT}
		}
		return Tuple{Iface{}, falseT}
	}
	in["(*sync.Map).Delete"] = func(fr *frame, a []Value) Value {
		fr.m.mapDelete(smap(fr, a[0]), a[1])
		return nil
	}
	in["(*sync.Once).Do"] = func(fr *frame, a []Value) Value {
		m := fr.m
		p := a[0].(*Value)
		if m.onces == nil {
			m.onces = map[*Value]bool{}
		}
		m.schedPoint()
		m.hbAcquire(p)
		if !m.onces[p] {
			m.onces[p] = true
			m.call(fr, token.NoPos, a[1], nil)
		}
		m.hbRelease(p)
		return nil
	}

	// ---- sync/atomic primitives (the typed wrappers run for real)
	for _, ty := range []string{"Int32", "Int64", "Uint32", "Uint64"} {
		ty := ty
		in["sync/atomic.Add"+ty] = func(fr *frame, a []Value) Value {
			m := fr.m
			m.schedPoint()
			p := a[0].(*Value)
			if p == nil {
				m.runtimePanic(fr, token.NoPos, "invalid memory address or nil pointer dereference")
			}
			m.atomicAccess(p, true)
			m.hbAcquire(p)
			m.hbRelease(p)
			nv := Bin(OpAdd, (*p).(*Term), a[1].(*Term))
			*p = nv
			return nv
		}
		in["sync/atomic.Load"+ty] = func(fr *frame, a []Value) Value {
			fr.m.schedPoint()
			p := a[0].(*Value)
			if p == nil {
				fr.m.runtimePanic(fr, token.NoPos, "invalid memory address or nil pointer dereference")
			}
			fr.m.atomicAccess(p, false)
			fr.m.hbAcquire(p)
			return *p
		}
		in["sync/atomic.Store"+ty] = func(fr *frame, a []Value) Value {
			fr.m.schedPoint()
			p := a[0].(*Value)
			if p == nil {
				fr.m.runtimePanic(fr, token.NoPos, "invalid memory address or nil pointer dereference")
			}
			fr.m.atomicAccess(p, true)
			fr.m.hbRelease(p)
			*p = a[1]
			return nil
		}
		in["sync/atomic.CompareAndSwap"+ty] = func(fr *frame, a []Value) Value {
			m := fr.m
			m.schedPoint()
			p := a[0].(*Value)
			m.atomicAccess(p, true)
			m.hbAcquire(p)
			m.hbRelease(p)
			if m.branch(Cmp(OpEq, (*p).(*Term), a[1].(*Term))) {
				*p = a[2]
				return trueT
			}
			return falseT
		}
	}

	// ---- hashing
	in["github.com/cespare/xxhash/v2.Sum64"] = func(fr *frame, a []Value) Value {
		return fr.m.hashBytes(sliceTerms(a[0].(Slice)))
	}
	in["github.com/cespare/xxhash/v2.Sum64String"] = func(fr *frame, a []Value) Value {
		return fr.m.hashBytes(a[0].(Str).Terms())
	}

	// streaming digest: the bytes written so far are kept per Digest object; reading and
	// writing them are memory accesses of that object for the race analysis
	digestAcc := func(fr *frame, v Value, write bool) *Value {
		p := v.(*Value)
		if p == nil {
			fr.m.runtimePanic(fr, token.NoPos, "invalid memory address or nil pointer dereference")
		}
		if fr.m.lockset != nil && fr.m.locksetOn {
			fr.m.lockset.access(fr.m, p, write, token.NoPos)
		}
		if fr.m.digests == nil {
			fr.m.digests = map[*Value][]*Term{}
		}
		return p
	}
	in["github.com/cespare/xxhash/v2.New"] = func(fr *frame, a []Value) Value {
		cell := zero(fr.m.P.namedType("github.com/cespare/xxhash/v2", "Digest"))
		return &cell
	}
	in["(*github.com/cespare/xxhash/v2.Digest).Reset"] = func(fr *frame, a []Value) Value {
		p := digestAcc(fr, a[0], true)
		fr.m.digests[p] = nil
		return nil
	}
	in["(*github.com/cespare/xxhash/v2.Digest).Write"] = func(fr *frame, a []Value) Value {
		p := digestAcc(fr, a[0], true)
		bs := sliceTerms(a[1].(Slice))
		fr.m.digests[p] = append(append([]*Term{}, fr.m.digests[p]...), bs...)
		return Tuple{K(64, uint64(len(bs))), Iface{}}
	}
	in["(*github.com/cespare/xxhash/v2.Digest).WriteString"] = func(fr *frame, a []Value) Value {
		p := digestAcc(fr, a[0], true)
		bs := a[1].(Str).Terms()
		fr.m.digests[p] = append(append([]*Term{}, fr.m.digests[p]...), bs...)
		return Tuple{K(64, uint64(len(bs))), Iface{}}
	}
	in["(*github.com/cespare/xxhash/v2.Digest).Sum64"] = func(fr *frame, a []Value) Value {
		p := digestAcc(fr, a[0], false)
		return fr.m.hashBytes(fr.m.digests[p])
	}

	// ---- misc std
	in["internal/stringslite.Clone"] = func(fr *frame, a []Value) Value { return a[0] }
	in["strings.Clone"] = func(fr *frame, a []Value) Value { return a[0] }
	in["database/sql.Register"] = func(fr *frame, a []Value) Value { return nil }
	in["time.Now"] = func(fr *frame, a []Value) Value {
		return zero(fr.fn.Signature.Results().At(0).Type())
	}
	// generated protobuf messages: String() is the text form, whose bytes are unspecified
	in["(google.golang.org/protobuf/internal/impl.Export).MessageStringOf"] = func(fr *frame, a []Value) Value {
		fr.m.noteOnce("approx: protobuf text form (String()) replaced by an injective canonical rendering of the message")
		return fr.m.canonStr(a[1], 0)
	}
	// syscall.Errno: text and classification without the package's tables
	in["(syscall.Errno).Error"] = func(fr *frame, a []Value) Value {
		t := a[0].(*Term)
		if !t.IsConst() {
			unsupportedf("symbolic errno")
		}
		return MkStr(errnoText(t.val))
	}
	in["(syscall.Errno).Is"] = func(fr *frame, a []Value) Value {
		m := fr.m
		t := a[0].(*Term)
		if !t.IsConst() {
			unsupportedf("symbolic errno")
		}
		target := a[1].(Iface)
		is := func(name string) bool {
			sp := m.P.byPath["internal/oserror"]
			if sp == nil {
				return false
			}
			g, ok := sp.Members[name].(*ssa.Global)
			if !ok {
				return false
			}
			e := valueEq(*m.global(g), target)
			return e.IsConst() && e.val == 1
		}
		switch {
		case is("ErrPermission"):
			return KB(t.val == 13 || t.val == 1)
		case is("ErrExist"):
			return KB(t.val == eEXIST || t.val == 39)
		case is("ErrNotExist"):
			return KB(t.val == eNOENT)
		}
		return falseT
	}
	// the clock is an environment input: every reading of an elapsed time is an arbitrary
	// non-negative duration (not a harness input: natively the real clock is used)
	in["time.Since"] = func(fr *frame, a []Value) Value {
		m := fr.m
		m.nseq++
		d := Var(fmt.Sprintf("v%d_elapsed", m.nseq), 64)
		m.vars[d.name] = 64
		m.assume(Cmp(OpSle, K(64, 0), d))
		m.noteOnce("environment: time.Since returns an arbitrary non-negative duration")
		return d
	}
	in["time.Sleep"] = func(fr *frame, a []Value) Value {
		fr.m.schedPoint() // sleeping lets other goroutines run; time itself is not modelled
		return nil
	}
	for _, fn := range []string{"Print", "Printf", "Println"} {
		in["log."+fn] = func(fr *frame, a []Value) Value { return nil }
	}
	exit := func(what string) intrinsicFn {
		return func(fr *frame, a []Value) Value {
			panic(targetPanic{v: Iface{t: fr.m.P.runtimeErrorString, v: MkStr("the process exits (" + what + ")")}, pos: "process exit"})
		}
	}
	in["os.Exit"] = exit("os.Exit")
	for _, fn := range []string{"Fatal", "Fatalf", "Fatalln"} {
		in["log."+fn] = exit("log." + fn)
		in["(*log.Logger)."+fn] = exit("log.Logger." + fn)
	}
	// sync/atomic on pointers (atomic.Pointer[T] and hand-written lock-free publication)
	in["sync/atomic.LoadPointer"] = func(fr *frame, a []Value) Value {
		fr.m.schedPoint()
		p := a[0].(*Value)
		if p == nil {
			fr.m.runtimePanic(fr, token.NoPos, "invalid memory address or nil pointer dereference")
		}
		fr.m.atomicAccess(p, false)
		fr.m.hbAcquire(p)
		return *p
	}
	in["sync/atomic.StorePointer"] = func(fr *frame, a []Value) Value {
		fr.m.schedPoint()
		p := a[0].(*Value)
		if p == nil {
			fr.m.runtimePanic(fr, token.NoPos, "invalid memory address or nil pointer dereference")
		}
		fr.m.atomicAccess(p, true)
		fr.m.hbRelease(p)
		*p = a[1]
		return nil
	}
	in["sync/atomic.SwapPointer"] = func(fr *frame, a []Value) Value {
		fr.m.schedPoint()
		p := a[0].(*Value)
		fr.m.hbAcquire(p)
		fr.m.hbRelease(p)
		old := *p
		*p = a[1]
		return old
	}
	in["sync/atomic.CompareAndSwapPointer"] = func(fr *frame, a []Value) Value {
		m := fr.m
		m.schedPoint()
		p := a[0].(*Value)
		m.hbAcquire(p)
		m.hbRelease(p)
		if eq := valueEq(*p, a[1]); eq.IsConst() && eq.val == 1 {
			*p = a[2]
			return trueT
		}
		return falseT
	}
	// atomic.Value: a cell holding an interface value
	atomicVal := func(fr *frame, v Value) *Value {
		p := v.(*Value)
		if p == nil {
			fr.m.runtimePanic(fr, token.NoPos, "invalid memory address or nil pointer dereference")
		}
		if fr.m.atomicVals == nil {
			fr.m.atomicVals = map[*Value]*Value{}
		}
		c := fr.m.atomicVals[p]
		if c == nil {
			var cell Value = Iface{}
			c = &cell
			fr.m.atomicVals[p] = c
		}
		return c
	}
	in["(*sync/atomic.Value).Load"] = func(fr *frame, a []Value) Value {
		fr.m.schedPoint()
		c := atomicVal(fr, a[0])
		fr.m.hbAcquire(c)
		return *c
	}
	in["(*sync/atomic.Value).Store"] = func(fr *frame, a []Value) Value {
		fr.m.schedPoint()
		c := atomicVal(fr, a[0])
		if a[1].(Iface).t == nil {
			panic(targetPanic{v: Iface{t: fr.m.P.runtimeErrorString, v: MkStr("sync/atomic: store of nil value into Value")}, pos: "sync/atomic"})
		}
		fr.m.hbRelease(c)
		*c = a[1]
		return nil
	}
	in["(*sync/atomic.Value).Swap"] = func(fr *frame, a []Value) Value {
		fr.m.schedPoint()
		c := atomicVal(fr, a[0])
		fr.m.hbAcquire(c)
		fr.m.hbRelease(c)
		old := *c
		*c = a[1]
		return old
	}
	// sync.Cond
	condOf := func(fr *frame, v Value) *condState {
		p := v.(*Value)
		if fr.m.conds == nil {
			fr.m.conds = map[*Value]*condState{}
		}
		c := fr.m.conds[p]
		if c == nil {
			c = &condState{}
			fr.m.conds[p] = c
		}
		return c
	}
	condLocker := func(fr *frame, v Value) Iface {
		st := (*v.(*Value)).(Struct)
		for _, f := range st {
			if it, ok := f.(Iface); ok && it.t != nil {
				return it
			}
		}
		unsupportedf("sync.Cond without a Locker")
		return Iface{}
	}
	in["(*sync.Cond).Wait"] = func(fr *frame, a []Value) Value {
		m := fr.m
		c := condOf(fr, a[0])
		l := condLocker(fr, a[0])
		ticket := c.next
		c.next++
		m.callMethod(fr, l, "Unlock")
		m.waitUntil(func() bool { return c.released > ticket }, "sync.Cond.Wait")
		m.hbAcquire(c)
		m.callMethod(fr, l, "Lock")
		return nil
	}
	in["(*sync.Cond).Signal"] = func(fr *frame, a []Value) Value {
		m := fr.m
		m.schedPoint()
		c := condOf(fr, a[0])
		m.hbRelease(c)
		if c.released < c.next {
			c.released++
		}
		m.notifyAll()
		return nil
	}
	in["(*sync.Cond).Broadcast"] = func(fr *frame, a []Value) Value {
		m := fr.m
		m.schedPoint()
		c := condOf(fr, a[0])
		m.hbRelease(c)
		c.released = c.next
		m.notifyAll()
		return nil
	}
	in["log.New"] = func(fr *frame, a []Value) Value {
		cell := zero(deref(fr.fn.Signature.Results().At(0).Type()))
		return &cell
	}
	in["reflect.TypeOf"] = func(fr *frame, a []Value) Value {
		it := a[0].(Iface)
		name := "<nil>"
		if it.t != nil {
			name = it.t.String()
		}
		return Iface{t: types.Typ[types.String], v: MkStr("reflect.Type:" + name)}
	}
	in["errors.Is"] = func(fr *frame, a []Value) Value { return fr.m.errorsIs(fr, a[0].(Iface), a[1].(Iface)) }
	in["sort.Slice"] = func(fr *frame, a []Value) Value {
		fr.m.sortSlice(fr, a[0].(Iface), a[1])
		return nil
	}
	in["sort.SliceStable"] = in["sort.Slice"] // the engine's sort is a (stable) merge sort
	in["sort.Strings"] = func(fr *frame, a []Value) Value {
		fr.m.sortStrings(fr, a[0].(Slice))
		return nil
	}
	in["unicode.ToLower"] = func(fr *frame, a []Value) Value {
		r := a[0].(*Term)
		if !r.IsConst() {
			unsupportedf("unicode.ToLower of a symbolic rune")
		}
		return K(32, uint64(unicode.ToLower(rune(sx(r.val, 32)))))
	}
	in["unicode.ToUpper"] = func(fr *frame, a []Value) Value {
		r := a[0].(*Term)
		if !r.IsConst() {
			unsupportedf("unicode.ToUpper of a symbolic rune")
		}
		return K(32, uint64(unicode.ToUpper(rune(sx(r.val, 32)))))
	}
	in["runtime.Gosched"] = func(fr *frame, a []Value) Value { fr.m.schedPoint(); return nil }
	in["runtime.NumGoroutine"] = func(fr *frame, a []Value) Value {
		n := 0
		for _, g := range fr.m.gs {
			if !g.done {
				n++
			}
		}
		return K(64, uint64(n))
	}

	p.installFmtStrings()
	p.installDeepCopy()
	p.installOS()
	p.installURL()
	p.installBytealg()
	p.installCSV()
	p.installVerif()
}

func mutexCell(fr *frame, v Value) *Value {
	p := v.(*Value)
	if p == nil {
		fr.m.runtimePanic(fr, token.NoPos, "invalid memory address or nil pointer dereference")
	}
	return p
}

func (m *Machine) wgCounter(p *Value) *int {
	if m.wgs == nil {
		m.wgs = map[*Value]*int{}
	}
	c := m.wgs[p]
	if c == nil {
		c = new(int)
		m.wgs[p] = c
	}
	return c
}

func sliceTerms(s Slice) []*Term {
	ts := make([]*Term, s.len)
	for i := 0; i < s.len; i++ {
		ts[i] = (*s.At(i)).(*Term)
	}
	return ts
}

func termsConcrete(ts []*Term) ([]byte, bool) {
	b := make([]byte, len(ts))
	for i, t := range ts {
		if !t.IsConst() {
			return nil, false
		}
		b[i] = byte(t.val)
	}
	return b, true
}

// hashBytes models xxhash.Sum64. Concrete input in concrete mode: the real function.
// Abstract-hash mode: an arbitrary 64-bit value per distinct byte string, pairwise distinct
// (the "no 64-bit collision" assumption of the properties, listed in the evidence).
func (m *Machine) hashBytes(ts []*Term) Value {
	b, conc := termsConcrete(ts)
	if conc && (!m.absHash || (m.absHashPrefix != "" && !strings.HasPrefix(string(b), m.absHashPrefix))) {
		r := K(64, xxhash.Sum64(b))
		if true { // always recorded: a later hash of symbolic bytes must agree with it
			// abstract hashes must not collide with the real hashes of other byte strings either
			key := "c:" + string(b)
			if _, ok := m.hashVars[key]; !ok {
				m.hashVars[key] = r
				for _, prev := range m.hashApps {
					if !prev.res.IsConst() {
						m.assertPC(BNot(Cmp(OpEq, prev.res, r)))
					}
				}
				m.hashApps = append(m.hashApps, hashApp{bytes: ts, res: r})
			}
		}
		return r
	}
	if conc {
		key := string(b)
		if t, ok := m.hashVars[key]; ok {
			return t
		}
		t := m.newVar(fmt.Sprintf("%x", b), "hash", 64)
		for _, prev := range m.hashApps {
			// distinct byte strings (of whatever length) get distinct hashes
			m.assertPC(BNot(Cmp(OpEq, prev.res, t)))
		}
		m.hashVars[key] = t
		m.hashApps = append(m.hashApps, hashApp{bytes: ts, res: t})
		m.noteOnce("assume: xxhash64 collision-free on the byte strings hashed (abstract hash)")
		return t
	}
	// symbolic bytes: fresh value, equal to an earlier application iff the bytes are equal
	t := m.newVar(fmt.Sprintf("sym%d", len(m.hashApps)), "hash", 64)
	for _, prev := range m.hashApps {
		same := falseT
		if len(prev.bytes) == len(ts) {
			same = trueT
			for i := range ts {
				same = BAnd(same, Cmp(OpEq, prev.bytes[i], ts[i]))
			}
		}
		// same bytes <=> same hash (function + injectivity assumption)
		m.assertPC(Cmp(OpEq, same, Cmp(OpEq, prev.res, t)))
	}
	m.hashApps = append(m.hashApps, hashApp{bytes: ts, res: t})
	m.noteOnce("assume: xxhash64 collision-free on the byte strings hashed (abstract hash)")
	return t
}

func (m *Machine) noteOnce(s string) {
	for _, n := range m.notes {
		if n == s {
			return
		}
	}
	m.notes = append(m.notes, s)
}

// mkError builds an error value of dynamic type *errors.errorString.
func (m *Machine) mkError(msg string) Iface {
	var cell Value = Struct{MkStr(msg)}
	return Iface{t: m.P.errorStringPtr, v: &cell}
}

func (m *Machine) mkErrorStr(msg Str) Iface {
	var cell Value = Struct{msg}
	return Iface{t: m.P.errorStringPtr, v: &cell}
}

// callMethod invokes method name on an interface value; ok=false if it has no such method.
func (m *Machine) callMethod(fr *frame, it Iface, name string, args ...Value) (Value, bool) {
	if it.t == nil {
		return nil, false
	}
	ms := m.P.prog.MethodSets.MethodSet(it.t)
	for i := 0; i < ms.Len(); i++ {
		sel := ms.At(i)
		if sel.Obj().Name() == name {
			fn := m.P.prog.MethodValue(sel)
			if fn == nil {
				return nil, false
			}
			all := append([]Value{it.v}, args...)
			return m.call(fr, token.NoPos, fn, all), true
		}
	}
	return nil, false
}

func (m *Machine) errorsIs(fr *frame, err, target Iface) Value {
	for depth := 0; depth < 16; depth++ {
		if err.t == nil {
			return KB(target.t == nil)
		}
		eq := valueEq(err, target)
		if m.branch(eq) {
			return trueT
		}
		if r, ok := m.callMethod(fr, err, "Is", target); ok {
			if t, isT := r.(*Term); isT && m.branch(t) {
				return trueT
			}
		}
		u, ok := m.callMethod(fr, err, "Unwrap")
		if !ok {
			return falseT
		}
		next, isIface := u.(Iface)
		if !isIface {
			return falseT
		}
		err = next
	}
	return falseT
}

func (m *Machine) sortSlice(fr *frame, x Iface, less Value) {
	s := x.v.(Slice)
	n := s.len
	if n < 2 {
		return
	}
	// sort.Slice calls less(i, j) on the slice being permuted. We sort a permutation with a
	// merge sort whose comparisons are made by placing the two candidates into the slice
	// positions 0 and 1 temporarily would disturb aliasing, so instead the elements are kept
	// in place and less is asked about original indices while they still hold the original
	// elements; the permutation is applied at the end. Each comparison may fork.
	idx := make([]int, n)
	for i := range idx {
		idx[i] = i
	}
	lessIdx := func(a, b int) bool {
		r := m.call(fr, token.NoPos, less, []Value{K(64, uint64(a)), K(64, uint64(b))}).(*Term)
		return m.branch(r)
	}
	var msort func(a []int) []int
	msort = func(a []int) []int {
		if len(a) < 2 {
			return a
		}
		mid := len(a) / 2
		l := msort(append([]int(nil), a[:mid]...))
		r := msort(append([]int(nil), a[mid:]...))
		out := make([]int, 0, len(a))
		i, j := 0, 0
		for i < len(l) && j < len(r) {
			if lessIdx(r[j], l[i]) {
				out = append(out, r[j])
				j++
			} else {
				out = append(out, l[i])
				i++
			}
		}
		out = append(out, l[i:]...)
		out = append(out, r[j:]...)
		return out
	}
	perm := msort(idx)
	orig := make([]Value, n)
	for i := 0; i < n; i++ {
		orig[i] = *s.At(i)
	}
	for i, p := range perm {
		if p != i && m.lockset != nil && m.locksetOn {
			// the library's sort only swaps what is out of order: a sorted slice is not written
			m.lockset.access(m, s.At(i), true, token.NoPos)
		}
		*s.At(i) = orig[p]
	}
}

func (m *Machine) sortStrings(fr *frame, s Slice) {
	n := s.len
	for i := 1; i < n; i++ {
		for j := i; j > 0; j-- {
			a, b := s.At(j), s.At(j-1)
			if !m.branch(StrLt((*a).(Str), (*b).(Str))) {
				break
			}
			*a, *b = *b, *a
		}
	}
}

// ---------------------------------------------------------------------------
// verif* harness runtime

func (p *Program) installVerif() {
	v := p.verifIntrinsics
	nameOf := func(a Value) string { return a.(Str).Concrete() }
	v["verifU64"] = func(fr *frame, a []Value) Value { return fr.m.newVar(nameOf(a[0]), "u64", 64) }
	v["verifU32"] = func(fr *frame, a []Value) Value { return fr.m.newVar(nameOf(a[0]), "u32", 32) }
	v["verifI32"] = func(fr *frame, a []Value) Value { return fr.m.newVar(nameOf(a[0]), "u32", 32) }
	v["verifU16"] = func(fr *frame, a []Value) Value { return fr.m.newVar(nameOf(a[0]), "u16", 16) }
	v["verifU8"] = func(fr *frame, a []Value) Value { return fr.m.newVar(nameOf(a[0]), "u8", 8) }
	v["verifInt"] = func(fr *frame, a []Value) Value { return fr.m.newVar(nameOf(a[0]), "u64", 64) }
	v["verifSymBool"] = func(fr *frame, a []Value) Value {
		t := fr.m.newVar(nameOf(a[0]), "u8", 8)
		return BNot(Cmp(OpEq, Extract(t, 0, 1), K(1, 0)))
	}
	v["verifBool"] = func(fr *frame, a []Value) Value {
		m := fr.m
		c := m.decideN("bool:"+nameOf(a[0]), 2, nil)
		m.nseq++
		m.nondet = append(m.nondet, NondetRec{Name: nameOf(a[0]), Kind: "bool", Value: uint64(c)})
		return KB(c == 1)
	}
	v["verifChoice"] = func(fr *frame, a []Value) Value {
		n := fr.m.concreteInt(a[1], "verifChoice n")
		return K(64, uint64(fr.m.choice(nameOf(a[0]), n)))
	}
	v["verifAssume"] = func(fr *frame, a []Value) Value { fr.m.assume(a[0].(*Term)); return nil }
	v["verifAssert"] = func(fr *frame, a []Value) Value {
		fr.m.assertProp(a[0].(*Term), nameOf(a[1]))
		return nil
	}
	v["verifReach"] = func(fr *frame, a []Value) Value {
		fr.m.reached = append(fr.m.reached, nameOf(a[0]))
		return nil
	}
	v["verifAnd"] = func(fr *frame, a []Value) Value { return BAnd(a[0].(*Term), a[1].(*Term)) }
	v["verifOr"] = func(fr *frame, a []Value) Value { return BOr(a[0].(*Term), a[1].(*Term)) }
	v["verifImplies"] = func(fr *frame, a []Value) Value { return BOr(BNot(a[0].(*Term)), a[1].(*Term)) }
	v["verifIte64"] = func(fr *frame, a []Value) Value { return Ite(a[0].(*Term), a[1].(*Term), a[2].(*Term)) }
	v["verifStrEq"] = func(fr *frame, a []Value) Value { return StrEq(a[0].(Str), a[1].(Str)) }
	v["verifStrLt"] = func(fr *frame, a []Value) Value { return StrLt(a[0].(Str), a[1].(Str)) }
	// verifValid(c): does c hold for every value of the symbolic inputs on this path?
	// (decided by the solver: unsat of pc ∧ ¬c). Natively it is c itself.
	v["verifValid"] = func(fr *frame, a []Value) Value {
		m := fr.m
		c := a[0].(*Term)
		if c.IsConst() {
			return c
		}
		if m.replaying() {
			d := m.prefix[m.dpos]
			m.dpos++
			m.decisions = append(m.decisions, d)
			return KB(d&^forcedBit == 1)
		}
		r := m.sol.Check(BNot(c))
		if r == Unknown {
			r = m.sol.Portfolio(BNot(c), m.cfg.PortfolioSec)
		}
		res := int32(0)
		switch r {
		case Unsat:
			res = 1
		case Sat:
		default:
			m.inconcl = append(m.inconcl, "verifValid undecided")
		}
		m.decisions = append(m.decisions, res|forcedBit)
		m.dpos++
		return KB(res == 1)
	}
	v["verifTier"] = func(fr *frame, a []Value) Value { return K(64, uint64(fr.m.cfg.Tier)) }
	v["verifSymbolic"] = func(fr *frame, a []Value) Value { return trueT }
	v["verifBytes"] = func(fr *frame, a []Value) Value {
		m := fr.m
		n := m.concreteInt(a[1], "verifBytes n")
		b := &Backing{v: make([]Value, n), esize: 1}
		for i := 0; i < n; i++ {
			b.v[i] = m.newVar(fmt.Sprintf("%s_%d", nameOf(a[0]), i), "u8", 8)
		}
		return Slice{a: b, len: n, cap: n}
	}
	v["verifString"] = func(fr *frame, a []Value) Value {
		m := fr.m
		n := m.concreteInt(a[1], "verifString n")
		ts := make([]*Term, n)
		for i := 0; i < n; i++ {
			ts[i] = m.newVar(fmt.Sprintf("%s_%d", nameOf(a[0]), i), "u8", 8)
		}
		return StrFromTerms(ts)
	}
	v["verifCard"] = func(fr *frame, a []Value) Value { return fr.m.card(a[0].(*Term)) }
	v["verifSize"] = func(fr *frame, a []Value) Value { return fr.m.sizeUF(a[0].(*Term)) }
	v["verifSetMapOrder"] = func(fr *frame, a []Value) Value {
		fr.m.mapOrder = fr.m.concreteInt(a[0], "map order mode")
		return nil
	}
	v["verifAbstractHash"] = func(fr *frame, a []Value) Value {
		fr.m.absHash = a[0].(*Term).val == 1
		return nil
	}
	v["verifAbstractHashFor"] = func(fr *frame, a []Value) Value {
		fr.m.absHash = true
		fr.m.absHashPrefix = nameOf(a[0])
		return nil
	}
	v["verifPreemptions"] = func(fr *frame, a []Value) Value {
		fr.m.preemptBound = fr.m.concreteInt(a[0], "preemption bound")
		return nil
	}
	v["verifLockset"] = func(fr *frame, a []Value) Value {
		if a[0].(*Term).val == 1 {
			if fr.m.lockset == nil {
				fr.m.lockset = newLockset()
			}
			fr.m.locksetOn = true
		} else {
			fr.m.locksetOn = false
		}
		return nil
	}
	// verifRaceFree asserts that no race candidate was recorded so far
	v["verifRaceFree"] = func(fr *frame, a []Value) Value {
		m := fr.m
		if m.lockset == nil {
			return nil
		}
		if cs := m.lockset.candidates(); len(cs) > 0 {
			m.failHere("RACE-CANDIDATE", nameOf(a[0])+": data race (no happens-before order): "+strings.Join(cs, "; "))
		}
		return nil
	}
	// verifMaxLoop lowers the per-loop unwind bound for the rest of the path (harnesses whose
	// loops are bounded by a short input use it so that a non-terminating loop is noticed fast)
	v["verifMaxLoop"] = func(fr *frame, a []Value) Value {
		n := fr.m.concreteInt(a[0], "loop bound")
		if n > 0 {
			fr.m.cfg.MaxLoop = n
		}
		return nil
	}
	v["verifChdirTemp"] = func(fr *frame, a []Value) Value { return nil }
	v["verifSchedule"] = func(fr *frame, a []Value) Value {
		fr.m.schedOn = a[0].(*Term).val == 1
		if fr.m.schedOn {
			fr.m.schedUsed = true
		}
		return nil
	}
	v["verifExpectPanic"] = func(fr *frame, a []Value) Value { fr.m.expectPanic = true; return nil }
	v["verifNote"] = func(fr *frame, a []Value) Value { fr.m.noteOnce(nameOf(a[0])); return nil }
	v["verifTempPath"] = func(fr *frame, a []Value) Value {
		return MkStr("/ghost/" + nameOf(a[0]))
	}
	v["verifGoroutines"] = func(fr *frame, a []Value) Value {
		n := 0
		for _, g := range fr.m.gs {
			if !g.done {
				n++
			}
		}
		return K(64, uint64(n))
	}
	v["verifTrace"] = func(fr *frame, a []Value) Value {
		if fr.m.cfg.Trace {
			fr.m.trace = append(fr.m.trace, showValue(a[0])+" "+showValue(a[1]))
			fmt.Fprintf(os.Stderr, "TRACE %.1fs steps=%d %s %s\n", time.Since(fr.m.pathStart).Seconds(), fr.m.steps, showValue(a[0]), showValue(a[1]))
		}
		return nil
	}
	p.installVerifModels()
}

// card is the cardinality of a 64-bit row set as an uninterpreted function with the
// axioms card(x)=0 <=> x=0 and card(x) <= 64 (true popcount identities do not scale, see DESIGN §3).
func (m *Machine) card(x *Term) *Term {
	if x.IsConst() {
		return K(64, uint64(bits.OnesCount64(x.val)))
	}
	for _, ca := range m.cardApps {
		if ca.arg == x {
			return ca.res
		}
	}
	r := UF("card", 64, x)
	m.cardApps = append(m.cardApps, cardApp{arg: x, res: r})
	// card(x)=0 <=> x=0 is applied as a rewrite in Cmp (term.go); card(x) <= 64 is added to
	// assertion obligations only (cardBounds), keeping branch queries free of the UF.
	m.noteOnce("model: cardinality is an uninterpreted function of the 64-bit row set with card(x)=0<=>x=0, card(x)<=64; counterexamples are re-solved with true popcount")
	return r
}

// cardBounds returns the conjunction of the range axioms of all cardinality applications.
func (m *Machine) cardBounds() *Term {
	if m.cardBoundT == nil {
		m.cardBoundT = trueT
	}
	for ; m.cardBoundN < len(m.cardApps); m.cardBoundN++ {
		ca := m.cardApps[m.cardBoundN]
		r := Cmp(OpUle, ca.res, K(64, 64))
		// raw form of card(x)=0 <=> x=0 (Cmp would rewrite it away)
		raw := &Term{op: OpEq, w: 0, args: []*Term{ca.res, K(64, 0)}}
		r = BAnd(r, Cmp(OpEq, raw, Cmp(OpEq, ca.arg, K(64, 0))))
		m.cardBoundT = BAnd(m.cardBoundT, r)
	}
	return m.cardBoundT
}

func (m *Machine) sizeUF(x *Term) *Term {
	r := UF("bmsize", 64, x)
	m.assertPC(Cmp(OpUlt, r, K(64, 1<<40)))
	return r
}

type cardApp struct {
	arg, res *Term
}

// popcountTerm is the exact population count of x (SWAR, no multiplication).
func popcountTerm(x *Term) *Term {
	k := func(v uint64) *Term { return K(64, v) }
	sh := func(t *Term, n uint64) *Term { return Bin(OpLShr, t, k(n)) }
	x1 := Bin(OpSub, x, Bin(OpAnd, sh(x, 1), k(0x5555555555555555)))
	x2 := Bin(OpAdd, Bin(OpAnd, x1, k(0x3333333333333333)), Bin(OpAnd, sh(x1, 2), k(0x3333333333333333)))
	x3 := Bin(OpAnd, Bin(OpAdd, x2, sh(x2, 4)), k(0x0f0f0f0f0f0f0f0f))
	x4 := Bin(OpAdd, x3, sh(x3, 8))
	x5 := Bin(OpAdd, x4, sh(x4, 16))
	x6 := Bin(OpAdd, x5, sh(x5, 32))
	return Bin(OpAnd, x6, k(0x7f))
}

func fieldIndex(t types.Type, name string) int {
	st := t.Underlying().(*types.Struct)
	for i := 0; i < st.NumFields(); i++ {
		if st.Field(i).Name() == name {
			return i
		}
	}
	panic("no field " + name + " in " + t.String())
}

func (p *Program) namedType(pkgPath, name string) types.Type {
	sp := p.byPath[pkgPath]
	if sp == nil {
		unsupportedf("package %s not loaded", pkgPath)
	}
	mem := sp.Type(name)
	if mem == nil {
		unsupportedf("type %s.%s not found", pkgPath, name)
	}
	return mem.Object().Type()
}

func calleeName(fn *ssa.Function) string {
	s := fn.String()
	return strings.TrimSpace(s)
}

// atomicAccess feeds an access made through sync/atomic to the race analysis.
func (m *Machine) atomicAccess(p *Value, write bool) {
	if m.lockset != nil && m.locksetOn && p != nil {
		m.lockset.accessAtomic(m, p, write)
	}
}
