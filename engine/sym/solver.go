package sym

import (
	"bufio"
	"fmt"
	"io"
	"os"
	"os/exec"
	"strconv"
	"strings"
	"time"
)

var resetEvery = func() int {
	if v := os.Getenv("VF_RESET_EVERY"); v != "" {
		n, _ := strconv.Atoi(v)
		if n > 0 {
			return n
		}
	}
	return 25
}()

type SatResult int

const (
	Unknown SatResult = iota
	Sat
	Unsat
)

func (r SatResult) String() string {
	switch r {
	case Sat:
		return "sat"
	case Unsat:
		return "unsat"
	}
	return "unknown"
}

// Solver wraps one persistent SMT solver process (z3 -in by default).
type Solver struct {
	kind    string
	cmd     *exec.Cmd
	in      *bufio.Writer
	inRaw   io.WriteCloser
	out     *bufio.Reader
	gen     int32
	nextID  int32
	decl    map[string]bool
	ufApps  []*Term
	log     []string // commands of the current path scope (for portfolio re-runs)
	inScope bool

	TimeoutMs       int
	pathsSinceReset int
	OverrideMs      int // one-shot cap for the next tactic query
	tee             *os.File

	// statistics
	NSat, NUnsat, NUnknown, NErrors int
	SolveTime                       time.Duration
	PortfolioRuns                   int
	PortfolioDecided                int
}

func NewSolver(kind string, timeoutMs int) (*Solver, error) {
	s := &Solver{kind: kind, TimeoutMs: timeoutMs}
	if err := s.start(); err != nil {
		return nil, err
	}
	return s, nil
}

func (s *Solver) start() error {
	var cmd *exec.Cmd
	switch s.kind {
	case "z3", "":
		cmd = exec.Command("z3", "-in", "-smt2")
	case "z3-new":
		cmd = exec.Command("z3-new", "-in", "-smt2")
	case "cvc5":
		cmd = exec.Command("cvc5", "--incremental", "--lang", "smt2", "--produce-models")
	default:
		return fmt.Errorf("unknown solver %q", s.kind)
	}
	stdin, err := cmd.StdinPipe()
	if err != nil {
		return err
	}
	stdout, err := cmd.StdoutPipe()
	if err != nil {
		return err
	}
	cmd.Stderr = os.Stderr
	if err := cmd.Start(); err != nil {
		return err
	}
	s.cmd = cmd
	s.inRaw = stdin
	s.in = bufio.NewWriterSize(stdin, 1<<16)
	s.out = bufio.NewReaderSize(stdout, 1<<16)
	s.gen++
	s.decl = map[string]bool{}
	s.inScope = false
	if f := os.Getenv("VF_TEE"); f != "" {
		s.tee, _ = os.Create(f)
	}
	s.sendOptions()
	return nil
}

func (s *Solver) tacticMs() int {
	if s.OverrideMs > 0 {
		return s.OverrideMs
	}
	return s.TimeoutMs
}

func (s *Solver) sendOptions() {
	s.send("(set-option :print-success false)")
	s.send("(set-option :produce-models true)")
	if s.kind == "cvc5" {
		s.send("(set-logic ALL)")
		s.send(fmt.Sprintf("(set-option :tlimit-per %d)", s.TimeoutMs))
	} else {
		s.send(fmt.Sprintf("(set-option :timeout %d)", s.TimeoutMs))
	}
}

func (s *Solver) Close() {
	if s.cmd != nil {
		s.inRaw.Close()
		s.cmd.Process.Kill()
		s.cmd.Wait()
		s.cmd = nil
	}
}

func (s *Solver) restart() {
	s.Close()
	if err := s.start(); err != nil {
		panic(err)
	}
}

func (s *Solver) send(cmd string) {
	s.in.WriteString(cmd)
	s.in.WriteByte('\n')
	if s.tee != nil {
		s.tee.WriteString(cmd + "\n")
	}
}

func (s *Solver) sendLogged(cmd string) {
	s.send(cmd)
	s.log = append(s.log, cmd)
}

// BeginPath opens a fresh scope; all declarations/definitions/assertions live in it.
func (s *Solver) BeginPath() {
	if s.inScope {
		s.EndPath()
	}
	// a long-lived z3 context slows down steadily (measured: 1.6 -> 6 ms/query over 100
	// paths); a reset per path keeps queries at their fresh-context cost
	s.pathsSinceReset++
	if s.pathsSinceReset >= resetEvery {
		s.send("(reset)")
		s.sendOptions()
		s.pathsSinceReset = 0
	}
	s.send("(push 1)")
	s.inScope = true
	s.gen++
	s.nextID = 0
	s.decl = map[string]bool{}
	s.ufApps = s.ufApps[:0]
	s.log = s.log[:0]
}

func (s *Solver) EndPath() {
	if f := os.Getenv("VF_DUMP_PATH"); f != "" && len(s.log) > 50 {
		os.WriteFile(f, []byte(strings.Join(s.log, "\n")+"\n"), 0644)
	}
	if s.inScope {
		s.send("(pop 1)")
		s.inScope = false
	}
}

// ref returns the SMT text referring to t, emitting definitions as needed.
func (s *Solver) ref(t *Term) string {
	switch t.op {
	case OpConst:
		return constStr(t)
	case OpVar:
		if !s.decl[t.name] {
			s.decl[t.name] = true
			s.sendLogged(fmt.Sprintf("(declare-const %s %s)", t.name, sortOf(t.w)))
		}
		return t.name
	}
	if t.gen == s.gen && t.id != 0 {
		return "t" + strconv.Itoa(int(t.id))
	}
	// iterative post-order to avoid deep recursion on long chains
	type fr struct {
		t *Term
		i int
	}
	stack := []fr{{t, 0}}
	for len(stack) > 0 {
		f := &stack[len(stack)-1]
		if f.i < len(f.t.args) {
			a := f.t.args[f.i]
			f.i++
			if a.op == OpConst || a.op == OpVar || (a.gen == s.gen && a.id != 0) {
				continue
			}
			stack = append(stack, fr{a, 0})
			continue
		}
		cur := f.t
		stack = stack[:len(stack)-1]
		if cur.gen == s.gen && cur.id != 0 {
			continue
		}
		s.defineOne(cur)
	}
	return "t" + strconv.Itoa(int(t.id))
}

func (s *Solver) defineOne(t *Term) {
	var sb strings.Builder
	switch t.op {
	case OpZext:
		fmt.Fprintf(&sb, "((_ zero_extend %d) %s)", t.w-t.args[0].w, s.ref(t.args[0]))
	case OpSext:
		fmt.Fprintf(&sb, "((_ sign_extend %d) %s)", t.w-t.args[0].w, s.ref(t.args[0]))
	case OpExtract:
		fmt.Fprintf(&sb, "((_ extract %d %d) %s)", int(t.val)+int(t.w)-1, t.val, s.ref(t.args[0]))
	case OpUF:
		key := "uf:" + t.name
		if !s.decl[key] {
			s.decl[key] = true
			var as []string
			for _, a := range t.args {
				as = append(as, sortOf(a.w))
			}
			s.sendLogged(fmt.Sprintf("(declare-fun %s (%s) %s)", t.name, strings.Join(as, " "), sortOf(t.w)))
		}
		sb.WriteString("(" + t.name)
		for _, a := range t.args {
			sb.WriteString(" " + s.ref(a))
		}
		sb.WriteString(")")
		s.ufApps = append(s.ufApps, t)
	default:
		name, ok := opNames[t.op]
		if !ok {
			panic(fmt.Sprintf("defineOne: op %d", t.op))
		}
		sb.WriteString("(" + name)
		for _, a := range t.args {
			sb.WriteString(" " + s.ref(a))
		}
		sb.WriteString(")")
	}
	s.nextID++
	t.id = s.nextID
	t.gen = s.gen
	s.sendLogged(fmt.Sprintf("(define-fun t%d () %s %s)", t.id, sortOf(t.w), sb.String()))
}

// Assert adds t to the path scope.
func (s *Solver) Assert(t *Term) {
	if t.op == OpConst && t.val == 1 {
		return
	}
	r := s.ref(t)
	s.sendLogged("(assert " + r + ")")
}

func (s *Solver) readLine() (string, error) {
	line, err := s.out.ReadString('\n')
	return strings.TrimSpace(line), err
}

// Check decides satisfiability of the scope plus the optional extra constraint.
func (s *Solver) Check(extra *Term) SatResult {
	var r string
	if extra != nil {
		if extra.op == OpConst {
			if extra.val == 0 {
				return Unsat
			}
			extra = nil
		} else {
			r = s.ref(extra)
		}
	}
	t0 := time.Now()
	if extra != nil {
		s.send("(push 1)")
		s.send("(assert " + r + ")")
	}
	s.send("(check-sat)")
	s.in.Flush()
	res := s.readResult()
	if res == Unknown && s.kind != "cvc5" {
		s.send(fmt.Sprintf("(check-sat-using (try-for qfufbv %d))", s.tacticMs()))
		s.in.Flush()
		res = s.readResult()
	}
	if extra != nil {
		s.send("(pop 1)")
		s.in.Flush()
	}
	el := time.Since(t0)
	s.SolveTime += el
	if (el > 3*time.Second || res == Unknown) && os.Getenv("VF_SLOW") != "" {
		x := ""
		if extra != nil {
			x = extra.String()
			if len(x) > 3000 {
				x = x[:3000]
			}
		}
		fmt.Fprintf(os.Stderr, "SLOW QUERY %.1fs %s: %s\n", el.Seconds(), res, x)
		if f := os.Getenv("VF_SLOW_DUMP"); f != "" {
			os.WriteFile(f, []byte("(set-logic ALL)\n"+strings.Join(s.log, "\n")+"\n(assert "+r+")\n(check-sat)\n"), 0644)
		}
	}
	switch res {
	case Sat:
		s.NSat++
	case Unsat:
		s.NUnsat++
	default:
		s.NUnknown++
	}
	return res
}

func (s *Solver) readResult() SatResult {
	for {
		line, err := s.readLine()
		if err != nil {
			s.NErrors++
			s.restartAfterFailure()
			return Unknown
		}
		switch {
		case line == "sat":
			return Sat
		case line == "unsat":
			return Unsat
		case line == "unknown" || line == "timeout":
			return Unknown
		case strings.HasPrefix(line, "(error"):
			s.NErrors++
			fmt.Fprintf(os.Stderr, "SOLVER ERROR: %s\n", line)
			// the answer that follows cannot be trusted; consume it
			l2, _ := s.readLine()
			_ = l2
			return Unknown
		case line == "":
			continue
		default:
			// unexpected chatter
			fmt.Fprintf(os.Stderr, "SOLVER: unexpected %q\n", line)
		}
	}
}

func (s *Solver) restartAfterFailure() {
	// replay the scope into a new process
	log := append([]string(nil), s.log...)
	s.Close()
	if err := s.start(); err != nil {
		panic(err)
	}
	s.send("(push 1)")
	s.inScope = true
	for _, l := range log {
		s.send(l)
	}
	s.log = log
	// note: gen changed by start(); ids in terms refer to old gen. Re-mark by bumping back.
	// To keep term ids valid we restore gen to the value the terms carry.
	s.gen--
}

// CheckModel is like Check but on Sat also returns a model (vars + UF applications).
func (s *Solver) CheckModel(extra *Term, vars map[string]uint8) (SatResult, *Assignment) {
	var r string
	if extra != nil {
		if extra.op == OpConst {
			if extra.val == 0 {
				return Unsat, nil
			}
			extra = nil
		} else {
			r = s.ref(extra)
		}
	}
	t0 := time.Now()
	if extra != nil {
		s.send("(push 1)")
		s.send("(assert " + r + ")")
	}
	if s.kind == "cvc5" {
		s.send("(check-sat)")
	} else {
		// the tactic pipeline is far faster than z3's incremental core on assertion obligations
		s.send(fmt.Sprintf("(check-sat-using (try-for qfufbv %d))", s.tacticMs()))
	}
	s.in.Flush()
	res := s.readResult()
	var as *Assignment
	if res == Sat {
		as = s.getModel(vars)
	}
	if extra != nil {
		s.send("(pop 1)")
		s.in.Flush()
	}
	el := time.Since(t0)
	s.SolveTime += el
	if (el > 3*time.Second || res == Unknown) && os.Getenv("VF_SLOW") != "" {
		x := ""
		if extra != nil {
			x = extra.String()
			if len(x) > 3000 {
				x = x[:3000]
			}
		}
		fmt.Fprintf(os.Stderr, "SLOW MODEL QUERY %.1fs %s: %s\n", el.Seconds(), res, x)
		if f := os.Getenv("VF_SLOW_DUMP"); f != "" {
			os.WriteFile(f, []byte("(set-logic ALL)\n"+strings.Join(s.log, "\n")+"\n(assert "+r+")\n(check-sat)\n"), 0644)
		}
	}
	switch res {
	case Sat:
		s.NSat++
	case Unsat:
		s.NUnsat++
	default:
		s.NUnknown++
	}
	return res, as
}

func (s *Solver) getModel(vars map[string]uint8) *Assignment {
	as := &Assignment{Vars: map[string]uint64{}, UFs: map[string]map[string]uint64{}, UFElse: map[string]uint64{}}
	var names []string
	for n := range vars {
		if s.decl[n] {
			names = append(names, n)
		}
	}
	type ufq struct {
		t    *Term
		refs []string
	}
	var ufs []ufq
	for _, t := range s.ufApps {
		q := ufq{t: t}
		q.refs = append(q.refs, "t"+strconv.Itoa(int(t.id)))
		for _, a := range t.args {
			q.refs = append(q.refs, s.ref(a))
		}
		ufs = append(ufs, q)
	}
	var all []string
	all = append(all, names...)
	for _, q := range ufs {
		all = append(all, q.refs...)
	}
	if len(all) == 0 {
		return as
	}
	vals := s.getValues(all)
	if vals == nil {
		return nil
	}
	for i, n := range names {
		as.Vars[n] = vals[i]
	}
	k := len(names)
	for _, q := range ufs {
		res := vals[k]
		args := vals[k+1 : k+len(q.refs)]
		k += len(q.refs)
		m := as.UFs[q.t.name]
		if m == nil {
			m = map[string]uint64{}
			as.UFs[q.t.name] = m
		}
		m[ufKey(args)] = res
	}
	return as
}

// getValues asks the solver for the values of the given expressions (bit-vectors or bools).
func (s *Solver) getValues(exprs []string) []uint64 {
	out := make([]uint64, 0, len(exprs))
	const chunk = 200
	for i := 0; i < len(exprs); i += chunk {
		j := i + chunk
		if j > len(exprs) {
			j = len(exprs)
		}
		s.send("(get-value (" + strings.Join(exprs[i:j], " ") + "))")
		s.in.Flush()
		txt, err := s.readSexp()
		if err != nil || strings.HasPrefix(txt, "(error") {
			fmt.Fprintf(os.Stderr, "SOLVER get-value failed: %v %s\n", err, txt)
			return nil
		}
		vs := parseValues(txt)
		if len(vs) != j-i {
			fmt.Fprintf(os.Stderr, "SOLVER get-value: expected %d values got %d: %s\n", j-i, len(vs), txt)
			return nil
		}
		out = append(out, vs...)
	}
	return out
}

func (s *Solver) readSexp() (string, error) {
	var sb strings.Builder
	depth := 0
	started := false
	for {
		line, err := s.out.ReadString('\n')
		if err != nil {
			return sb.String(), err
		}
		for _, c := range line {
			if c == '(' {
				depth++
				started = true
			} else if c == ')' {
				depth--
			}
		}
		sb.WriteString(line)
		if started && depth <= 0 {
			return strings.TrimSpace(sb.String()), nil
		}
	}
}

// parseValues extracts the value of every (expr value) pair of a get-value response.
func parseValues(txt string) []uint64 {
	// tokenise
	var toks []string
	cur := strings.Builder{}
	flush := func() {
		if cur.Len() > 0 {
			toks = append(toks, cur.String())
			cur.Reset()
		}
	}
	for _, c := range txt {
		switch c {
		case '(', ')':
			flush()
			toks = append(toks, string(c))
		case ' ', '\n', '\t', '\r':
			flush()
		default:
			cur.WriteRune(c)
		}
	}
	flush()
	// grammar: ( (expr value)* ) where expr and value are sexps
	pos := 0
	var skip func()
	skip = func() {
		if toks[pos] == "(" {
			pos++
			for toks[pos] != ")" {
				skip()
			}
			pos++
		} else {
			pos++
		}
	}
	readVal := func() uint64 {
		if toks[pos] == "(" {
			// (_ bvN w)
			if pos+3 < len(toks) && toks[pos+1] == "_" && strings.HasPrefix(toks[pos+2], "bv") {
				v, _ := strconv.ParseUint(toks[pos+2][2:], 10, 64)
				skip()
				return v
			}
			skip()
			return 0
		}
		t := toks[pos]
		pos++
		switch {
		case t == "true":
			return 1
		case t == "false":
			return 0
		case strings.HasPrefix(t, "#x"):
			v, _ := strconv.ParseUint(t[2:], 16, 64)
			return v
		case strings.HasPrefix(t, "#b"):
			v, _ := strconv.ParseUint(t[2:], 2, 64)
			return v
		}
		return 0
	}
	var out []uint64
	if len(toks) == 0 || toks[0] != "(" {
		return nil
	}
	pos = 1
	for pos < len(toks) && toks[pos] == "(" {
		pos++  // (
		skip() // expr
		out = append(out, readVal())
		if pos < len(toks) && toks[pos] == ")" {
			pos++
		}
	}
	return out
}

// Portfolio re-runs the current scope plus extra in other solvers (one-shot processes).
// It returns the first definite answer.
func (s *Solver) Portfolio(extra *Term, capSec int) SatResult {
	s.PortfolioRuns++
	var r string
	if extra != nil {
		r = s.ref(extra)
	}
	var sb strings.Builder
	sb.WriteString("(set-logic ALL)\n")
	for _, l := range s.log {
		sb.WriteString(l)
		sb.WriteByte('\n')
	}
	if extra != nil {
		sb.WriteString("(assert " + r + ")\n")
	}
	sb.WriteString("(check-sat)\n")
	f, err := os.CreateTemp("", "vfq*.smt2")
	if err != nil {
		return Unknown
	}
	defer os.Remove(f.Name())
	f.WriteString(sb.String())
	f.Close()
	type cand struct {
		name string
		args []string
	}
	cands := []cand{
		{"cvc5", []string{"--lang", "smt2", "--solve-bv-as-int=sum", fmt.Sprintf("--tlimit=%d", capSec*1000), f.Name()}},
		{"z3-new", []string{fmt.Sprintf("-T:%d", capSec), f.Name()}},
		{"cvc5", []string{"--lang", "smt2", fmt.Sprintf("--tlimit=%d", capSec*1000), f.Name()}},
	}
	ch := make(chan SatResult, len(cands))
	var cmds []*exec.Cmd
	for _, c := range cands {
		cmd := exec.Command(c.name, c.args...)
		cmds = append(cmds, cmd)
		go func(cmd *exec.Cmd) {
			out, _ := cmd.Output()
			txt := strings.TrimSpace(string(out))
			if strings.Contains(txt, "(error") {
				ch <- Unknown
				return
			}
			switch {
			case strings.HasPrefix(txt, "unsat"):
				ch <- Unsat
			case strings.HasPrefix(txt, "sat"):
				ch <- Sat
			default:
				ch <- Unknown
			}
		}(cmd)
	}
	res := Unknown
	for range cands {
		r := <-ch
		if r != Unknown {
			res = r
			break
		}
	}
	for _, c := range cmds {
		if c.Process != nil {
			c.Process.Kill()
		}
	}
	if res != Unknown {
		s.PortfolioDecided++
	}
	return res
}

// CheckModelFast is Check plus model extraction on Sat, using the incremental core.
func (s *Solver) CheckModelFast(extra *Term, vars map[string]uint8) (SatResult, *Assignment) {
	var r string
	if extra != nil {
		if extra.op == OpConst {
			if extra.val == 0 {
				return Unsat, nil
			}
			extra = nil
		} else {
			r = s.ref(extra)
		}
	}
	t0 := time.Now()
	if extra != nil {
		s.send("(push 1)")
		s.send("(assert " + r + ")")
	}
	s.send("(check-sat)")
	s.in.Flush()
	res := s.readResult()
	if res == Unknown && s.kind != "cvc5" {
		s.send(fmt.Sprintf("(check-sat-using (try-for qfufbv %d))", s.tacticMs()))
		s.in.Flush()
		res = s.readResult()
	}
	var as *Assignment
	if res == Sat {
		as = s.getModel(vars)
	}
	if extra != nil {
		s.send("(pop 1)")
		s.in.Flush()
	}
	s.SolveTime += time.Since(t0)
	switch res {
	case Sat:
		s.NSat++
	case Unsat:
		s.NUnsat++
	default:
		s.NUnknown++
	}
	return res, as
}
