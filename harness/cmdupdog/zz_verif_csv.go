package main

import (
	"bytes"
	"encoding/csv"
	"os"
)

// verifCSV (native side): write a CSV file holding the records; before record errAt (if >= 0)
// a malformed line (bare quote) is inserted. The engine intercepts this function and feeds
// the records to its encoding/csv stub instead.
func verifCSV(path string, records [][]string, errAt int) {
	var buf bytes.Buffer
	w := csv.NewWriter(&buf)
	for i, r := range records {
		if i == errAt {
			w.Flush()
			buf.WriteString("x\"y\n")
		}
		if err := w.Write(r); err != nil {
			panic(err)
		}
	}
	w.Flush()
	if errAt >= len(records) {
		buf.WriteString("x\"y\n")
	}
	if err := os.WriteFile(path, buf.Bytes(), 0644); err != nil {
		panic(err)
	}
}
